// TRUSTED PRELUDE -- the whole assumed base of every unit lives in this file (DESIGN 3.3).
use std::collections::{hash_map, HashMap, HashSet};
use vstd::std_specs::hash::*;

// string extensionality: two Strings with equal views are equal
pub broadcast axiom fn axiom_string_ext(a: String, b: String)
    requires #[trigger] a@ == #[trigger] b@
    ensures a == b;

// class S: Vec::from([x])
#[verifier::external_body]
pub fn vec_from1<T>(x: T) -> (r: Vec<T>)
    ensures r@ == seq![x]
{ Vec::from([x]) }

// class S: `a == b` on String / str. vstd accepts the operator but gives it no meaning; the wrapper's body is that operator.
#[verifier::external_body]
pub fn string_eq_str(a: &String, b: &str) -> (r: bool)
    ensures r == (a@ == b@)
{ a == b }

#[verifier::external_body]
pub fn string_eq(a: &String, b: &String) -> (r: bool)
    ensures r == (a@ == b@)
{ a == b }

// class S: [String]::join(sep)
pub open spec fn join_spec(v: Seq<String>, sep: Seq<char>) -> Seq<char>
    decreases v.len()
{
    if v.len() == 0 { Seq::<char>::empty() }
    else if v.len() == 1 { v[0]@ }
    else { join_spec(v.drop_last(), sep) + sep + v.last()@ }
}

#[verifier::external_body]
pub fn slice_join(v: &[String], sep: &str) -> (r: String)
    ensures r@ == join_spec(v@, sep@)
{ v.join(sep) }

// class S: &str == &str
#[verifier::external_body]
pub fn str_eq(a: &str, b: &str) -> (r: bool)
    ensures r == (a@ == b@)
{ a == b }

// sequence suffix
pub open spec fn seq_ends_with(s: Seq<char>, suf: Seq<char>) -> bool {
    s.len() >= suf.len() && s.subrange(s.len() - suf.len(), s.len() as int) == suf
}

// class S: str::ends_with(&str)
#[verifier::external_body]
pub fn str_ends_with(a: &str, suf: &str) -> (r: bool)
    ensures r == seq_ends_with(a@, suf@)
{ a.ends_with(suf) }

// class S: str::contains(char)
#[verifier::external_body]
pub fn str_contains_char(a: &str, c: char) -> (r: bool)
    ensures r == a@.contains(c)
{ a.contains(c) }

// class S: <&String>::to_owned() / String::clone through a reference
#[verifier::external_body]
pub fn string_ref_to_owned(a: &String) -> (r: String)
    ensures r == *a
{ a.to_owned() }

// class S: Vec::into_iter().find(p): first element accepted by p, None if there is none
#[verifier::external_body]
pub fn vec_into_find<T, F: Fn(&T) -> bool>(v: Vec<T>, f: F) -> (r: Option<T>)
    requires forall |x: &T| #[trigger] f.requires((x,))
    ensures
        match r {
            Some(x) => exists |i: int| 0 <= i < v@.len() && #[trigger] v@[i] == x && f.ensures((&v@[i],), true)
                        && forall |j: int| 0 <= j < i ==> f.ensures((&#[trigger] v@[j],), false),
            None => forall |j: int| 0 <= j < v@.len() ==> f.ensures((&#[trigger] v@[j],), false),
        }
{ v.into_iter().find(|x| f(x)) }

// class S: HashSet::iter().find(p): some element accepted by p (which one is unspecified), None iff there is none
#[verifier::external_body]
pub fn hs_iter_find<'a, F: Fn(&&'a String) -> bool>(s: &'a HashSet<String>, f: F) -> (r: Option<&'a String>)
    requires forall |x: &&'a String| #[trigger] f.requires((x,))
    ensures
        match r {
            Some(x) => s@.contains(*x) && f.ensures((&x,), true),
            None => forall |y: &'a String| s@.contains(*y) ==> f.ensures((&y,), false),
        }
{ s.iter().find(|x| f(x)) }

// a String with a given content (total by extensionality)
pub uninterp spec fn string_of(s: Seq<char>) -> String;
pub broadcast axiom fn axiom_string_of(s: Seq<char>)
    ensures (#[trigger] string_of(s))@ == s;

// class S: String::ends_with(&String), String::contains(char)
#[verifier::external_body]
pub fn string_ends_with(a: &String, suf: &String) -> (r: bool)
    ensures r == seq_ends_with(a@, suf@)
{ a.ends_with(suf.as_str()) }

#[verifier::external_body]
pub fn string_contains_char(a: &String, c: char) -> (r: bool)
    ensures r == a@.contains(c)
{ a.contains(c) }

// class S: Vec::from([..])
#[verifier::external_body]
pub fn vec_from_arr<T, const N: usize>(a: [T; N]) -> (r: Vec<T>)
    ensures r@ == a@
{ Vec::from(a) }

// the order of String (Ord for String is a total order; only that is assumed)
pub uninterp spec fn string_le(a: Seq<char>, b: Seq<char>) -> bool;
pub broadcast axiom fn axiom_string_le_total(a: Seq<char>, b: Seq<char>)
    ensures #[trigger] string_le(a, b) || string_le(b, a);
pub broadcast axiom fn axiom_string_le_antisym(a: Seq<char>, b: Seq<char>)
    requires #[trigger] string_le(a, b), #[trigger] string_le(b, a)
    ensures a == b;
pub broadcast axiom fn axiom_string_le_trans(a: Seq<char>, b: Seq<char>, c: Seq<char>)
    requires #[trigger] string_le(a, b), #[trigger] string_le(b, c)
    ensures string_le(a, c);

// class S: HashSet::iter().filter(p).min(): the smallest element accepted by p, None iff there is none
#[verifier::external_body]
pub fn hs_iter_filter_min<'a, F: Fn(&&'a String) -> bool>(s: &'a HashSet<String>, f: F) -> (r: Option<&'a String>)
    requires forall |x: &&'a String| #[trigger] f.requires((x,))
    ensures
        match r {
            Some(x) => s@.contains(*x) && f.ensures((&x,), true)
                && forall |y: &'a String| #[trigger] s@.contains(*y) ==> string_le(x@, y@) || f.ensures((&y,), false),
            None => forall |y: &'a String| s@.contains(*y) ==> f.ensures((&y,), false),
        }
{ s.iter().filter(|x| f(x)).min() }

// class S: HashMap::iter().filter(p).min_by_key(|(k, _)| *k): the accepted entry with the smallest key, None iff none is accepted
#[verifier::external_body]
pub fn hm_iter_filter_min_key<'a, V, F: Fn(&(&'a String, &'a V)) -> bool>(m: &'a HashMap<String, V>, f: F) -> (r: Option<(&'a String, &'a V)>)
    requires forall |x: &(&'a String, &'a V)| #[trigger] f.requires((x,))
    ensures
        match r {
            Some(kv) => m@.contains_key(*kv.0) && m@[*kv.0] == *kv.1 && f.ensures((&kv,), true)
                && forall |k2: String| #[trigger] m@.contains_key(k2) ==> string_le(kv.0@, k2@) || f.ensures((&(&k2, &m@[k2]),), false),
            None => forall |k2: String| #[trigger] m@.contains_key(k2) ==> f.ensures((&(&k2, &m@[k2]),), false),
        }
{ m.iter().filter(|x| f(x)).min_by_key(|(k, _)| *k) }

// ks enumerates the entries of m exactly once each, in some order
pub open spec fn seq_enumerates_map<V>(ks: Seq<(String, V)>, m: Map<String, V>) -> bool {
    &&& ks.len() == m.len()
    &&& ks.no_duplicates()
    &&& forall |j: int| 0 <= j < ks.len() ==> m.contains_key((#[trigger] ks[j]).0) && m[ks[j].0] == ks[j].1
    &&& forall |i: int, j: int| 0 <= i < j < ks.len() ==> (#[trigger] ks[i]).0 != (#[trigger] ks[j]).0
}

// class S: HashMap::into_iter() (no vstd model for hash_map::IntoIter): the entries, each exactly once, in the map's
// (unspecified) iteration order. `for x in m.into_iter()` == `for x in m.into_iter().collect::<Vec<_>>()`.
#[verifier::external_body]
pub fn hm_into_vec<V>(m: HashMap<String, V>) -> (r: Vec<(String, V)>)
    ensures seq_enumerates_map(r@, m@)
{ m.into_iter().collect() }

// class S: String::from(&str)
#[verifier::external_body]
pub fn string_from_str(s: &str) -> (r: String)
    ensures r@ == s@
{ String::from(s) }

// class S: HashMap::into_iter().map(f).collect::<HashMap<_,_>>() -- f applied to every entry exactly once
#[verifier::external_body]
pub fn hm_map_collect<K: Eq + std::hash::Hash, V, F: FnMut((K, V)) -> (K, V)>(m: HashMap<K, V>, f: F) -> (r: HashMap<K, V>)
    requires forall |k: K| #[trigger] m@.contains_key(k) ==> f.requires(((k, m@[k]),))
    ensures
        // every result entry is the image of an input entry; the key f returned for an input entry is present in the result
        // (NOT: "its value is the image of that entry" - when f sends two entries to one key the later one replaces the earlier)
        forall |k2: K| #[trigger] r@.contains_key(k2) ==> exists |k: K| m@.contains_key(k) && f.ensures(((k, m@[k]),), (k2, r@[k2])),
        forall |k: K| #[trigger] m@.contains_key(k) ==> exists |k2: K, v2: V| r@.contains_key(k2) && f.ensures(((k, m@[k]),), (k2, v2)),
{ m.into_iter().map(f).collect() }

// class S: Vec::sort_by_key(f) with a (usize, usize) key: stable sort = a permutation that is ascending in the key
pub open spec fn key_le(a: (usize, usize), b: (usize, usize)) -> bool { a.0 < b.0 || (a.0 == b.0 && a.1 <= b.1) }
// out is pre rearranged by the index map p; entries with equal keys keep their relative order (stability)
pub open spec fn stable_rearrangement<T>(pre: Seq<T>, out: Seq<T>, key: spec_fn(T) -> (usize, usize), p: Seq<int>) -> bool {
    &&& p.len() == out.len() && out.len() == pre.len()
    &&& forall |i: int| 0 <= i < p.len() ==> 0 <= #[trigger] p[i] < pre.len() && out[i] == pre[p[i]]
    &&& forall |i: int, j: int| 0 <= i < j < p.len() ==> #[trigger] p[i] != #[trigger] p[j]
    &&& forall |i: int, j: int| 0 <= i < j < p.len() && key(out[i]) == key(out[j]) ==> #[trigger] p[i] < #[trigger] p[j]
}
pub open spec fn stable_sorted<T>(pre: Seq<T>, out: Seq<T>, key: spec_fn(T) -> (usize, usize)) -> bool {
    exists |p: Seq<int>| #[trigger] stable_rearrangement(pre, out, key, p)
}

// class S: Vec::sort_by_key(f): a STABLE sort by a (usize, usize) key
#[verifier::external_body]
pub fn vec_sort_by_key_2<T, F: Fn(&T) -> (usize, usize)>(v: &mut Vec<T>, f: F, Ghost(key): Ghost<spec_fn(T) -> (usize, usize)>)
    requires
        forall |x: &T| #[trigger] f.requires((x,)),
        forall |x: &T, k: (usize, usize)| #[trigger] f.ensures((x,), k) ==> k == key(*x),
    ensures
        final(v)@.to_multiset() == old(v)@.to_multiset(),
        final(v)@.len() == old(v)@.len(),
        forall |i: int, j: int| 0 <= i < j < final(v)@.len() ==> key_le(key(#[trigger] final(v)@[i]), key(#[trigger] final(v)@[j])),
        stable_sorted(old(v)@, final(v)@, key),
{ v.sort_by_key(f) }

// class S: Vec::sort_unstable_by_key(f): sorted permutation, NO stability
#[verifier::external_body]
pub fn vec_sort_unstable_by_key_2<T, F: Fn(&T) -> (usize, usize)>(v: &mut Vec<T>, f: F, Ghost(key): Ghost<spec_fn(T) -> (usize, usize)>)
    requires
        forall |x: &T| #[trigger] f.requires((x,)),
        forall |x: &T, k: (usize, usize)| #[trigger] f.ensures((x,), k) ==> k == key(*x),
    ensures
        final(v)@.to_multiset() == old(v)@.to_multiset(),
        final(v)@.len() == old(v)@.len(),
        forall |i: int, j: int| 0 <= i < j < final(v)@.len() ==> key_le(key(#[trigger] final(v)@[i]), key(#[trigger] final(v)@[j])),
{ v.sort_unstable_by_key(f) }

// class S: Clone of a key type / of a HashMap: the clone equals the original (true for every std key type; HashMap::clone
// clones keys and values, and the values here have structural derived Clone)
#[verifier::external_body]
pub fn clone_eq<T: Clone>(x: &T) -> (r: T)
    ensures r == *x
{ x.clone() }

#[verifier::external_body]
pub fn hm_clone<K: Clone + Eq + std::hash::Hash, V: Clone>(m: &HashMap<K, V>) -> (r: HashMap<K, V>)
    ensures r@ == m@
{ m.clone() }

// <S: Into<String>>::into (Type::simple_type): the text is the text of the argument, for the argument types that have a
// text at all (ghost bound IntoView, added to the extracted signature; implemented for &str and String only)
pub trait IntoView { spec fn iv(&self) -> Seq<char>; }
impl IntoView for &str { open spec fn iv(&self) -> Seq<char> { (*self)@ } }
impl IntoView for String { open spec fn iv(&self) -> Seq<char> { self@ } }
#[verifier::external_body]
pub fn into_string<S: Into<String> + IntoView>(s: S) -> (r: String)
    ensures r@ == s.iv()
{ s.into() }
