// TRUSTED PRELUDE -- the whole assumed base of every unit lives in this file (DESIGN 3.3).
use std::collections::{hash_map, HashMap, HashSet};
use vstd::std_specs::hash::*;

// string extensionality: two Strings with equal views are equal
pub broadcast axiom fn axiom_string_ext(a: String, b: String)
    requires #[trigger] a@ == #[trigger] b@
    ensures a == b;

// class S: Vec::from([x])
#[verifier::external_body]
pub fn vec_from1<T>(x: T) -> (r: Vec<T>)
    ensures r@ == seq![x]
{ Vec::from([x]) }

// class S: `a == b` on String / str. vstd accepts the operator but gives it no meaning; the wrapper's body is that operator.
#[verifier::external_body]
pub fn string_eq_str(a: &String, b: &str) -> (r: bool)
    ensures r == (a@ == b@)
{ a == b }

#[verifier::external_body]
pub fn string_eq(a: &String, b: &String) -> (r: bool)
    ensures r == (a@ == b@)
{ a == b }

// class S: [String]::join(sep)
pub open spec fn join_spec(v: Seq<String>, sep: Seq<char>) -> Seq<char>
    decreases v.len()
{
    if v.len() == 0 { Seq::<char>::empty() }
    else if v.len() == 1 { v[0]@ }
    else { join_spec(v.drop_last(), sep) + sep + v.last()@ }
}

#[verifier::external_body]
pub fn slice_join(v: &[String], sep: &str) -> (r: String)
    ensures r@ == join_spec(v@, sep@)
{ v.join(sep) }
