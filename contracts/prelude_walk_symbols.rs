// class L contract of the (proved, unit v_walksym) symbol walker: the callback is offered symbols_of(ast, filter) in order
// until it answers Break. The stub hands that sequence to the loop that replaces the higher-order call.
#[verifier::external_body]
fn walk_symbols_order<'a>(ast: &'a ast::Aidl, filter: SymbolFilter) -> (r: Vec<Symbol<'a>>)
    ensures r@ == symbols_of(ast, filter)
{ unimplemented!() }
