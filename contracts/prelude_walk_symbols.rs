// CONTRACT of traverse::find_symbol, a 10-line adapter around walk_symbols_with_control_flow (closure that answers
// Break(symbol) when the predicate holds). The walker itself is PROVED in unit v_walksym (visits symbols_of(ast, filter) in
// order, stops at the first Break and returns it); the adapter is assumed here and compared with a reference traversal by
// the bounded oracle replay/c15_traversal.rs.
#[verifier::external_body]
fn find_symbol<'a, F>(ast: &'a ast::Aidl, filter: SymbolFilter, f: F) -> (r: Option<Symbol<'a>>)
    where F: FnMut(&Symbol<'a>) -> bool
    requires forall |s: &Symbol<'a>| #[trigger] f.requires((s,))
    ensures ({
        let syms = symbols_of(ast, filter);
        match r {
            Some(s) => exists |i: int| 0 <= i < syms.len() && #[trigger] syms[i] == s && f.ensures((&syms[i],), true)
                        && forall |j: int| 0 <= j < i ==> f.ensures((&#[trigger] syms[j],), false),
            None => forall |j: int| 0 <= j < syms.len() ==> f.ensures((&#[trigger] syms[j],), false),
        }
    })
{ unimplemented!() }
