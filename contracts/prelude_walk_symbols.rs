// TRUSTED WALKER CONTRACTS -- functions of /repo/src/traverse.rs that are outside Verus' language (closures capturing
// FnMut, `?` on ControlFlow, try_for_each). Each contract below is assumed here and is the assertion set of a
// bounded Kani harness on the real function (DESIGN 3.5); results that lean on them say so.
#[verifier::external_body]
fn find_symbol<'a, F>(ast: &'a ast::Aidl, filter: SymbolFilter, f: F) -> (r: Option<Symbol<'a>>)
    where F: FnMut(&Symbol<'a>) -> bool
    requires forall |s: &Symbol<'a>| #[trigger] f.requires((s,))
    ensures ({
        let syms = symbols_of(ast, filter);
        match r {
            Some(s) => exists |i: int| 0 <= i < syms.len() && #[trigger] syms[i] == s && f.ensures((&syms[i],), true)
                        && forall |j: int| 0 <= j < i ==> f.ensures((&#[trigger] syms[j],), false),
            None => forall |j: int| 0 <= j < syms.len() ==> f.ensures((&#[trigger] syms[j],), false),
        }
    })
{ unimplemented!() }
