// WALKER CONTRACTS used by class L (closure lifting): "walk_X(ast, f) calls f exactly once on each element of S(ast), in
// that order, and does nothing else". For walk_methods and walk_types this is PROVED on the real functions in unit
// v_walk (FnMut parameter replaced by an abstract recording visitor, class V). What remains assumed here is only the
// step from "the callback is called exactly on S, in order" to "the call is a loop over S" (parametricity of a generic
// FnMut parameter).
// walk_methods(ast, f) calls f exactly once on each method of the interface, in source order, constants skipped,
// and does nothing else (class L: the call site iterates this sequence)
#[verifier::external_body]
fn walk_methods_order<'a>(ast: &'a ast::Aidl) -> (r: Vec<&'a ast::Method>)
    ensures r@.len() == methods_of(*ast).len(), forall |k: int| 0 <= k < r@.len() ==> *#[trigger] r@[k] == methods_of(*ast)[k]
{ unimplemented!() }

// walk_types(ast, f) calls f exactly once on every type node of the file, at any depth, in source order
// (an array's element type before the array), and does nothing else
#[verifier::external_body]
fn walk_types_order<'a>(ast: &'a ast::Aidl) -> (r: Vec<&'a ast::Type>)
    ensures r@.len() == types_of(*ast).len(), forall |k: int| 0 <= k < r@.len() ==> *#[trigger] r@[k] == types_of(*ast)[k]
{ unimplemented!() }
