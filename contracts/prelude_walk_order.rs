// TRUSTED WALKER CONTRACTS -- functions of /repo/src/traverse.rs that are outside Verus' language (closures capturing
// FnMut, `?` on ControlFlow, try_for_each). Each contract below is assumed here and is the assertion set of a
// bounded Kani harness on the real function (DESIGN 3.5); results that lean on them say so.
// walk_methods(ast, f) calls f exactly once on each method of the interface, in source order, constants skipped,
// and does nothing else (class L: the call site iterates this sequence)
#[verifier::external_body]
fn walk_methods_order<'a>(ast: &'a ast::Aidl) -> (r: Vec<&'a ast::Method>)
    ensures r@.len() == methods_of(*ast).len(), forall |k: int| 0 <= k < r@.len() ==> *#[trigger] r@[k] == methods_of(*ast)[k]
{ unimplemented!() }

// walk_types(ast, f) calls f exactly once on every type node of the file, at any depth, in source order
// (an array's element type before the array), and does nothing else
#[verifier::external_body]
fn walk_types_order<'a>(ast: &'a ast::Aidl) -> (r: Vec<&'a ast::Type>)
    ensures r@.len() == types_of(*ast).len(), forall |k: int| 0 <= k < r@.len() ==> *#[trigger] r@[k] == types_of(*ast)[k]
{ unimplemented!() }
