// TRUSTED byte model of `str` (UTF-8): this is the std panic contract of str slicing (DESIGN 3.3)
pub open spec fn utf8_len(c: char) -> nat {
    if (c as u32) < 0x80 { 1 } else if (c as u32) < 0x800 { 2 } else if (c as u32) < 0x10000 { 3 } else { 4 }
}
pub open spec fn byte_len(s: Seq<char>) -> nat
    decreases s.len()
{
    if s.len() == 0 { 0 } else { byte_len(s.drop_last()) + utf8_len(s.last()) }
}
// byte offset `off` sits in front of the k-th character
pub open spec fn boundary_at(s: Seq<char>, off: int, k: int) -> bool { 0 <= k <= s.len() && off == byte_len(s.take(k)) }

// a str's byte length fits a usize
pub broadcast axiom fn axiom_str_len_fits(s: &str)
    ensures #[trigger] byte_len(s@) <= usize::MAX;

// class S: str::len()
#[verifier::external_body]
pub fn str_len(s: &str) -> (r: usize)
    ensures r == byte_len(s@)
{ s.len() }

// class S: char::len_utf8()
#[verifier::external_body]
pub fn char_len_utf8(c: char) -> (r: usize)
    ensures r == utf8_len(c)
{ c.len_utf8() }

// class S: &s[a..b] -- panics unless a <= b <= len and both are char boundaries; Ghost(i), Ghost(j) name the characters
#[verifier::external_body]
pub fn str_slice<'a>(s: &'a str, a: usize, b: usize, Ghost(i): Ghost<int>, Ghost(j): Ghost<int>) -> (r: &'a str)
    requires boundary_at(s@, a as int, i), boundary_at(s@, b as int, j), i <= j
    ensures r@ == s@.subrange(i, j)
{ &s[a..b] }

// class S: &s[..b]
#[verifier::external_body]
pub fn str_prefix<'a>(s: &'a str, b: usize, Ghost(j): Ghost<int>) -> (r: &'a str)
    requires boundary_at(s@, b as int, j)
    ensures r@ == s@.take(j)
{ &s[..b] }
