// TRUSTED std::fs / std::path stand-ins for Parser::add_file (external types; shim bodies are the std calls)
#[verifier::external_type_specification]
#[verifier::external_body]
pub struct ExFile(std::fs::File);
#[verifier::external_type_specification]
#[verifier::external_body]
pub struct ExIoError(std::io::Error);
#[verifier::external_type_specification]
#[verifier::external_body]
pub struct ExPath(std::path::Path);
#[verifier::external_type_specification]
#[verifier::external_body]
pub struct ExPathBuf(std::path::PathBuf);

// the text a successful read_to_string appends for this open file
pub uninterp spec fn file_text(f: std::fs::File) -> Seq<char>;
// the key under which a path is stored
pub uninterp spec fn pathbuf_of(p: &std::path::Path) -> std::path::PathBuf;

// class S: P::as_ref()
pub uninterp spec fn as_path_spec<P>(p: &P) -> &std::path::Path;
#[verifier::external_body]
pub fn as_path<P: AsRef<std::path::Path>>(p: &P) -> (r: &std::path::Path)
    ensures r == as_path_spec(p)
{ p.as_ref() }

// class S: std::fs::File::open
#[verifier::external_body]
pub fn fs_open(p: &std::path::Path) -> (r: Result<std::fs::File, std::io::Error>)
{ std::fs::File::open(p) }

// class S: Read::read_to_string -- Ok: the whole (UTF-8) text was appended; Err: nothing is promised about the buffer
#[verifier::external_body]
pub fn fs_read_to_string(f: &mut std::fs::File, buf: &mut String) -> (r: Result<usize, std::io::Error>)
    ensures r is Ok ==> final(buf)@ =~= old(buf)@ + file_text(*old(f))
{ std::io::Read::read_to_string(f, buf) }

// class S: PathBuf::from(&Path)
#[verifier::external_body]
pub fn pathbuf_from(p: &std::path::Path) -> (r: std::path::PathBuf)
    ensures r == pathbuf_of(p)
{ std::path::PathBuf::from(p) }
