// TRUSTED SHIMS for the grammar actions (class S): std calls that vstd has no spec for; each body is the std call itself.
pub open spec fn join_seqs(v: Seq<&str>, sep: Seq<char>) -> Seq<char>
    decreases v.len()
{
    if v.len() == 0 { Seq::<char>::empty() }
    else if v.len() == 1 { v[0]@ }
    else { join_seqs(v.drop_last(), sep) + sep + v.last()@ }
}
#[verifier::external_body]
pub fn vec_str_join(v: &Vec<&str>, sep: &str) -> (r: String)
    ensures r@ == join_seqs(v@, sep@)
{ v.join(sep) }

// Vec<Option<T>> -> Vec<T>: the Some values, in order
pub open spec fn somes<T>(v: Seq<Option<T>>) -> Seq<T>
    decreases v.len()
{
    if v.len() == 0 { Seq::<T>::empty() }
    else { somes(v.drop_last()) + (match v.last() { Some(x) => seq![x], None => Seq::<T>::empty() }) }
}
#[verifier::external_body]
pub fn vec_flatten<T>(v: Vec<Option<T>>) -> (r: Vec<T>)
    ensures r@ == somes(v@)
{ v.into_iter().flatten().collect() }

#[verifier::external_body]
pub fn opt_str_to_owned(o: Option<&str>) -> (r: Option<String>)
    ensures (o is None <==> r is None), o is Some ==> r->0@ == o->0@
{ o.map(str::to_owned) }

// str::parse::<u32>: only whether it succeeds matters to the action (the error is displayed)
#[verifier::external_type_specification]
#[verifier::external_body]
pub struct ExParseIntError(core::num::ParseIntError);
// what <u32 as FromStr>::from_str makes of a text (decimal digits, optional leading '+', no overflow): uninterpreted - the
// contracts only say that the stored code IS this value and that the Error appears exactly when there is none
pub uninterp spec fn spec_parse_u32(s: Seq<char>) -> Option<u32>;
#[verifier::external_body]
pub fn str_parse_u32(s: &str) -> (r: Result<u32, core::num::ParseIntError>)
    ensures (r is Ok <==> spec_parse_u32(s@) is Some), r is Ok ==> r->Ok_0 == spec_parse_u32(s@)->0
{ s.parse() }
#[verifier::external_body]
pub fn fmt_transact_code_error(e: core::num::ParseIntError) -> (r: String)
{ format!("Invalid method transact code: {}", e) }
// `v.map(|(ip1, i)| (ip1, i.parse()))` of the Method action: position kept, text parsed as u32
#[verifier::external_body]
pub fn opt_parse_transact_code(v: Option<(usize, &str)>) -> (r: Option<(usize, Result<u32, core::num::ParseIntError>)>)
    ensures (r is Some <==> v is Some), v is Some ==> (r->0).0 == (v->0).0,
        v is Some ==> ((r->0).1 is Ok <==> spec_parse_u32((v->0).1@) is Some),
        v is Some && (r->0).1 is Ok ==> (r->0).1->Ok_0 == spec_parse_u32((v->0).1@)->0
{ v.map(|(ip1, i)| (ip1, i.parse())) }
// `v.unwrap_or_default().into_iter().collect()` of the annotation action: the (name, value) pairs as a map, a later pair
// with the same name replacing an earlier one (HashMap's FromIterator inserts in order)
pub open spec fn pairs_map(v: Seq<(String, Option<String>)>) -> Map<String, Option<String>>
    decreases v.len()
{
    if v.len() == 0 { Map::<String, Option<String>>::empty() } else { pairs_map(v.drop_last()).insert(v.last().0, v.last().1) }
}
#[verifier::external_body]
pub fn opt_pairs_to_map(v: Option<Vec<(String, Option<String>)>>) -> (r: HashMap<String, Option<String>>)
    ensures r@ == (match v { Some(x) => pairs_map(x@), None => Map::<String, Option<String>>::empty() })
{ v.unwrap_or_default().into_iter().collect() }
