// ---------- spec of C17 (symbol names), written from the property statement ----------
spec fn owner_name(o: ConstOwner) -> Seq<char> {
    match o { ConstOwner::Interface(i) => i.name@, ConstOwner::Parcelable(p) => p.name@ }
}

// qualified names (relation: constructs the statement is silent about are left free)
spec fn qname_ok(s: Symbol, r: Option<String>) -> bool {
    match s {
        Symbol::Package(p) => r is Some && r->0@ == p.name@,
        Symbol::Import(i) => r is Some && r->0@ == import_qname(*i),
        Symbol::Interface(i, pkg) => r is Some && r->0@ == pkg.name@ + "."@ + i.name@,
        Symbol::Parcelable(p, pkg) => r is Some && r->0@ == pkg.name@ + "."@ + p.name@,
        Symbol::Enum(e, pkg) => r is Some && r->0@ == pkg.name@ + "."@ + e.name@,
        Symbol::Method(m, i) => r is Some && r->0@ == i.name@ + "::"@ + m.name@,
        Symbol::Const(c, o) => r is Some && r->0@ == owner_name(o) + "::"@ + c.name@,
        Symbol::Field(f, p) => r is Some && r->0@ == p.name@ + "::"@ + f.name@,
        Symbol::EnumElement(el, e) => r is Some && r->0@ == e.name@ + "::"@ + el.name@,
        Symbol::Type(t) => match t.kind { TypeKind::ResolvedItem(q, _) => r is Some && r->0@ == q@, _ => true },
        Symbol::Arg(_, _) => true,
    }
}

// plain names: the identifier written in the source
spec fn name_ok(s: Symbol, r: Option<String>) -> bool {
    match s {
        Symbol::Interface(i, _) => r is Some && r->0@ == i.name@,
        Symbol::Parcelable(p, _) => r is Some && r->0@ == p.name@,
        Symbol::Enum(e, _) => r is Some && r->0@ == e.name@,
        Symbol::Method(m, _) => r is Some && r->0@ == m.name@,
        Symbol::Const(c, _) => r is Some && r->0@ == c.name@,
        Symbol::Field(f, _) => r is Some && r->0@ == f.name@,
        Symbol::EnumElement(el, _) => r is Some && r->0@ == el.name@,
        Symbol::Arg(a, _) => a.name is Some ==> (r is Some && r->0@ == a.name->0@),
        _ => true,
    }
}

// the symbol that traversal reports for the item of a file
spec fn item_symbol<'a>(a: &'a ast::Aidl) -> Symbol<'a> {
    match a.item {
        ast::Item::Interface(i) => Symbol::Interface(&i, &a.package),
        ast::Item::Parcelable(p) => Symbol::Parcelable(&p, &a.package),
        ast::Item::Enum(e) => Symbol::Enum(&e, &a.package),
    }
}

// C17 core: whatever get_qualified_name may return for a file's item symbol is the file's key,
// and a type that resolved to that key reports the same qualified name.
proof fn lemma_item_qname_is_key(a: ast::Aidl, r: Option<String>, t: ast::Type, rt: Option<String>)
    requires
        qname_ok(item_symbol(&a), r),
        qname_ok(Symbol::Type(&t), rt),
        t.kind is ResolvedItem,
        t.kind->ResolvedItem_0@ == key_of(a),
    ensures
        r is Some && r->0@ == key_of(a),
        rt is Some && rt->0@ == r->0@,
{
}
