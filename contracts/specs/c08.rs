// ---------- spec of C08, written from the property statement ----------
// arrays may hold primitives, String, enums, parcelables (defined, forward-declared, unknown imports),
// IBinder, FileDescriptor, ParcelFileDescriptor; unresolved names get the benefit of the doubt
spec fn array_elem_ok(k: TypeKind) -> bool {
    match k {
        TypeKind::Primitive | TypeKind::String => true,
        TypeKind::ResolvedItem(_, ResolvedItemKind::Enum) => true,
        TypeKind::ResolvedItem(_, ResolvedItemKind::Parcelable) => true,
        TypeKind::ResolvedItem(_, ResolvedItemKind::ForwardDeclaredParcelable) => true,
        TypeKind::ResolvedItem(_, ResolvedItemKind::UnknownImport) => true,
        TypeKind::AndroidType(AndroidTypeKind::IBinder) => true,
        TypeKind::AndroidType(AndroidTypeKind::FileDescriptor) => true,
        TypeKind::AndroidType(AndroidTypeKind::ParcelFileDescriptor) => true,
        TypeKind::Unresolved => true,
        // another array, list, map, void, CharSequence, interface, ParcelableHolder
        _ => false,
    }
}

// lists may hold String, parcelables (defined, forward-declared, unknown imports), IBinder, ParcelFileDescriptor only
spec fn list_elem_ok(k: TypeKind) -> bool {
    match k {
        TypeKind::String => true,
        TypeKind::ResolvedItem(_, ResolvedItemKind::Parcelable) => true,
        TypeKind::ResolvedItem(_, ResolvedItemKind::ForwardDeclaredParcelable) => true,
        TypeKind::ResolvedItem(_, ResolvedItemKind::UnknownImport) => true,
        TypeKind::AndroidType(AndroidTypeKind::IBinder) => true,
        TypeKind::AndroidType(AndroidTypeKind::ParcelFileDescriptor) => true,
        TypeKind::Unresolved => true,
        _ => false,
    }
}

// map keys must be String (a user-chosen name can never be the String keyword, so an unresolved key is wrong too)
spec fn map_key_ok(t: ast::Type) -> bool {
    t.kind is String && t.name@ == "String"@
}

// map values may be anything but primitives, void and enums
spec fn map_value_ok(k: TypeKind) -> bool {
    match k {
        TypeKind::Primitive | TypeKind::Void => false,
        TypeKind::ResolvedItem(_, ResolvedItemKind::Enum) => false,
        _ => true,
    }
}

spec fn elem_expect(ok: bool, t: ast::Type) -> Seq<DP> {
    if ok { Seq::<DP>::empty() } else { seq![err(t.symbol_range)] }
}

// what one container node contributes: each offending element one Error on that element,
// each raw List/Map one Warning, legal containers and non-containers nothing
spec fn container_expect(t: ast::Type) -> Seq<DP> {
    match t.kind {
        TypeKind::Array => elem_expect(array_elem_ok(t.generic_types@[0].kind), t.generic_types@[0]),
        TypeKind::List =>
            if t.generic_types@.len() == 0 { seq![warn(t.symbol_range)] }
            else { elem_expect(list_elem_ok(t.generic_types@[0].kind), t.generic_types@[0]) },
        TypeKind::Map =>
            if t.generic_types@.len() == 0 { seq![warn(t.symbol_range)] }
            else { elem_expect(map_key_ok(t.generic_types@[0]), t.generic_types@[0]) + elem_expect(map_value_ok(t.generic_types@[1].kind), t.generic_types@[1]) },
        _ => Seq::<DP>::empty(),
    }
}

// every type node of the file, at any depth, contributes its container_expect, in traversal order
spec fn containers_expect(ts: Seq<ast::Type>, n: int) -> Seq<DP>
    decreases n
{
    if n <= 0 { Seq::<DP>::empty() } else { containers_expect(ts, n - 1) + container_expect(ts[n - 1]) }
}
