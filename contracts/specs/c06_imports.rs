// ---------- spec of C06 (imports), written from the property statement ----------
// first index j < upto whose import has the same qualified name as is[i], or -1
spec fn first_import(is: Seq<ast::Import>, i: int, upto: int) -> int
    decreases upto
{
    if upto <= 0 { -1 }
    else {
        let r = first_import(is, i, upto - 1);
        if r >= 0 { r } else if import_qname(is[upto - 1]) == import_qname(is[i]) { upto - 1 } else { -1 }
    }
}
spec fn dup_import(is: Seq<ast::Import>, i: int) -> bool { first_import(is, i, i) >= 0 }

proof fn lemma_first_import(is: Seq<ast::Import>, i: int, upto: int)
    requires 0 <= upto <= i < is.len()
    ensures
        ({ let f = first_import(is, i, upto);
           &&& -1 <= f < upto
           &&& (f >= 0 ==> import_qname(is[f]) == import_qname(is[i]) && forall |j: int| 0 <= j < f ==> import_qname(is[j]) != import_qname(is[i]))
           &&& (f < 0 ==> forall |j: int| 0 <= j < upto ==> import_qname(is[j]) != import_qname(is[i])) })
    decreases upto
{
    if upto > 0 { lemma_first_import(is, i, upto - 1); }
}
proof fn lemma_first_import_nondup(is: Seq<ast::Import>, i: int)
    requires 0 <= i < is.len(), dup_import(is, i)
    ensures ({ let f = first_import(is, i, i); 0 <= f < i && !dup_import(is, f) && import_qname(is[f]) == import_qname(is[i]) })
{
    lemma_first_import(is, i, i);
    lemma_first_import(is, first_import(is, i, i), first_import(is, i, i));
}

// a repeat of an earlier import: one Error on it, pointing back to the first occurrence
spec fn dup_step(is: Seq<ast::Import>, i: int) -> Seq<EX> {
    if dup_import(is, i) { seq![EX::Rel(err(is[i].symbol_range), is[first_import(is, i, i)].symbol_range)] } else { Seq::<EX>::empty() }
}
spec fn dups_expect(is: Seq<ast::Import>, n: int) -> Seq<EX>
    decreases n
{
    if n <= 0 { Seq::<EX>::empty() } else { dups_expect(is, n - 1) + dup_step(is, n - 1) }
}

// the map "qualified name -> first occurrence" over the first n imports
spec fn import_map_ok(is: Seq<ast::Import>, n: int, m: Map<String, &ast::Import>) -> bool {
    &&& m.dom().finite()
    &&& forall |s: String| #[trigger] m.contains_key(s) <==> exists |j: int| 0 <= j < n && import_qname(#[trigger] is[j]) == s@
    &&& forall |j: int| 0 <= j < n && !dup_import(is, j) ==> #[trigger] m[string_of(import_qname(is[j]))] == &is[j]
}

// what a (first-occurrence) import deserves: neither a file of the parser nor a built-in -> one 'unresolved' Warning;
// resolvable but no type of the file resolves to it -> one 'unused' Warning; used and resolvable -> nothing
spec fn classify_import(q: String, imp: ast::Import, resolved: Set<String>, defined: Map<String, ResolvedItemKind>) -> Seq<EX> {
    if !defined.contains_key(q) && !is_builtin_qname(q@) { seq![EX::Tag(warn(imp.symbol_range), "unresolved import"@)] }
    else if !resolved.contains(q) { seq![EX::Tag(warn(imp.symbol_range), "unused import"@)] }
    else { Seq::<EX>::empty() }
}
spec fn imports_classified<'a>(ks: Seq<(&'a String, &&'a ast::Import)>, n: int, resolved: Set<String>, defined: Map<String, ResolvedItemKind>) -> Seq<EX>
    decreases n
{
    if n <= 0 { Seq::<EX>::empty() } else { imports_classified(ks, n - 1, resolved, defined) + classify_import(*ks[n - 1].0, **ks[n - 1].1, resolved, defined) }
}
// ks enumerates the entries of m exactly once each (any order: this is the hash-order independence)
spec fn enumerates<'a>(ks: Seq<(&'a String, &&'a ast::Import)>, m: Map<String, &'a ast::Import>) -> bool {
    &&& ks.len() == m.len()
    &&& ks.no_duplicates()
    &&& forall |j: int| 0 <= j < ks.len() ==> m.contains_key(*(#[trigger] ks[j]).0) && m[*ks[j].0] == *ks[j].1
}
// whole contract: the repeats in source order, then the classification of every distinct import exactly once
spec fn imports_post<'a>(is: Seq<ast::Import>, resolved: Set<String>, defined: Map<String, ResolvedItemKind>,
                         old_d: Seq<Diagnostic>, new_d: Seq<Diagnostic>, m: Map<String, &'a ast::Import>) -> bool {
    exists |ks: Seq<(&'a String, &&'a ast::Import)>| enumerates(ks, m)
        && appended_ex(old_d, new_d, dups_expect(is, is.len() as int) + #[trigger] imports_classified(ks, ks.len() as int, resolved, defined))
}
