// ---------- symbol order (C15 statement) ----------
spec fn all_type_syms<'a>(ts: Seq<ast::Type>) -> Seq<Symbol<'a>> { ts.map_values(|t: ast::Type| Symbol::Type(&t)) }

spec fn import_syms<'a>(is: Seq<ast::Import>, n: int) -> Seq<Symbol<'a>>
    decreases n
{
    if n <= 0 { Seq::<Symbol<'a>>::empty() } else { import_syms(is, n - 1).push(Symbol::Import(&is[n - 1])) }
}

spec fn arg_syms<'a>(m: &'a ast::Method, n: int) -> Seq<Symbol<'a>>
    decreases n
{
    if n <= 0 { Seq::<Symbol<'a>>::empty() }
    else { arg_syms(m, n - 1).push(Symbol::Arg(&m.args@[n - 1], m)) + all_type_syms(flat(m.args@[n - 1].arg_type)) }
}

spec fn iface_el_syms<'a>(i: &'a ast::Interface, el: &'a ast::InterfaceElement, all: bool) -> Seq<Symbol<'a>> {
    match el {
        ast::InterfaceElement::Method(m) =>
            if all { seq![Symbol::Method(m, i)] + all_type_syms(flat(m.return_type)) + arg_syms(m, m.args@.len() as int) } else { seq![Symbol::Method(m, i)] },
        ast::InterfaceElement::Const(c) =>
            if all { seq![Symbol::Const(c, ConstOwner::Interface(i))] + all_type_syms(flat(c.const_type)) } else { seq![Symbol::Const(c, ConstOwner::Interface(i))] },
    }
}
spec fn iface_syms<'a>(i: &'a ast::Interface, n: int, all: bool) -> Seq<Symbol<'a>>
    decreases n
{
    if n <= 0 { Seq::<Symbol<'a>>::empty() } else { iface_syms(i, n - 1, all) + iface_el_syms(i, &i.elements@[n - 1], all) }
}

spec fn parc_el_syms<'a>(p: &'a ast::Parcelable, el: &'a ast::ParcelableElement, all: bool) -> Seq<Symbol<'a>> {
    match el {
        ast::ParcelableElement::Field(f) =>
            if all { seq![Symbol::Field(f, p)] + all_type_syms(flat(f.field_type)) } else { seq![Symbol::Field(f, p)] },
        ast::ParcelableElement::Const(c) =>
            if all { seq![Symbol::Const(c, ConstOwner::Parcelable(p))] + all_type_syms(flat(c.const_type)) } else { seq![Symbol::Const(c, ConstOwner::Parcelable(p))] },
    }
}
spec fn parc_syms<'a>(p: &'a ast::Parcelable, n: int, all: bool) -> Seq<Symbol<'a>>
    decreases n
{
    if n <= 0 { Seq::<Symbol<'a>>::empty() } else { parc_syms(p, n - 1, all) + parc_el_syms(p, &p.elements@[n - 1], all) }
}

spec fn enum_syms<'a>(e: &'a ast::Enum, n: int) -> Seq<Symbol<'a>>
    decreases n
{
    if n <= 0 { Seq::<Symbol<'a>>::empty() } else { enum_syms(e, n - 1).push(Symbol::EnumElement(&e.elements@[n - 1], e)) }
}

// the item's own symbol
spec fn item_sym<'a>(a: &'a ast::Aidl) -> Symbol<'a> {
    match &a.item {
        ast::Item::Interface(i) => Symbol::Interface(i, &a.package),
        ast::Item::Parcelable(p) => Symbol::Parcelable(p, &a.package),
        ast::Item::Enum(e) => Symbol::Enum(e, &a.package),
    }
}
// what precedes the members: package and imports (most detailed level only), then the item
spec fn head_syms<'a>(a: &'a ast::Aidl, filter: SymbolFilter) -> Seq<Symbol<'a>> {
    if filter is All { seq![Symbol::Package(&a.package)] + import_syms(a.imports@, a.imports@.len() as int) + seq![item_sym(a)] }
    else { seq![item_sym(a)] }
}
// the members (absent at the coarsest level)
spec fn member_syms<'a>(a: &'a ast::Aidl, filter: SymbolFilter) -> Seq<Symbol<'a>> {
    if filter is ItemsOnly { Seq::<Symbol<'a>>::empty() }
    else {
        match &a.item {
            ast::Item::Interface(i) => iface_syms(i, i.elements@.len() as int, filter is All),
            ast::Item::Parcelable(p) => parc_syms(p, p.elements@.len() as int, filter is All),
            ast::Item::Enum(e) => enum_syms(e, e.elements@.len() as int),
        }
    }
}
// the visit sequence at each filter level
spec fn symbols_of<'a>(a: &'a ast::Aidl, filter: SymbolFilter) -> Seq<Symbol<'a>> { head_syms(a, filter) + member_syms(a, filter) }

// ---------- C16 ----------
spec fn lc_le(a: (usize, usize), b: (usize, usize)) -> bool { a.0 < b.0 || (a.0 == b.0 && a.1 <= b.1) }
// inclusive at both ends, on (line, column) pairs
spec fn contains_lc(r: ast::Range, p: (usize, usize)) -> bool { lc_le(r.start.line_col, p) && lc_le(p, r.end.line_col) }

// the range used for lookup is the name range
spec fn sym_range(s: Symbol) -> ast::Range {
    match s {
        Symbol::Package(p) => p.symbol_range,
        Symbol::Import(i) => i.symbol_range,
        Symbol::Interface(i, _) => i.symbol_range,
        Symbol::Parcelable(p, _) => p.symbol_range,
        Symbol::Enum(e, _) => e.symbol_range,
        Symbol::Method(m, _) => m.symbol_range,
        Symbol::Arg(a, _) => a.symbol_range,
        Symbol::Const(c, _) => c.symbol_range,
        Symbol::Field(f, _) => f.symbol_range,
        Symbol::EnumElement(e, _) => e.symbol_range,
        Symbol::Type(t) => t.symbol_range,
    }
}
// the whole construct a symbol stands for
spec fn sym_full_range(s: Symbol) -> ast::Range {
    match s {
        Symbol::Package(p) => p.full_range,
        Symbol::Import(i) => i.full_range,
        Symbol::Interface(i, _) => i.full_range,
        Symbol::Parcelable(p, _) => p.full_range,
        Symbol::Enum(e, _) => e.full_range,
        Symbol::Method(m, _) => m.full_range,
        Symbol::Arg(a, _) => a.full_range,
        Symbol::Const(c, _) => c.full_range,
        Symbol::Field(f, _) => f.full_range,
        Symbol::EnumElement(e, _) => e.full_range,
        Symbol::Type(t) => t.full_range,
    }
}
spec fn hit(s: Symbol, p: (usize, usize)) -> bool { contains_lc(sym_range(s), p) }

// find_symbol: the first symbol of the traversal sequence the predicate accepts (all earlier ones rejected), or nothing
spec fn find_ok<'a, F: FnMut(&Symbol<'a>) -> bool>(syms: Seq<Symbol<'a>>, f: F, r: Option<Symbol<'a>>) -> bool {
    match r {
        Some(s) => exists |i: int| 0 <= i < syms.len() && #[trigger] syms[i] == s && f.ensures((&syms[i],), true)
                    && forall |j: int| 0 <= j < i ==> f.ensures((&#[trigger] syms[j],), false),
        None => forall |j: int| 0 <= j < syms.len() ==> f.ensures((&#[trigger] syms[j],), false),
    }
}

// first symbol in traversal order whose name range contains the position, or nothing
spec fn lookup_ok<'a>(syms: Seq<Symbol<'a>>, p: (usize, usize), r: Option<Symbol<'a>>) -> bool {
    match r {
        Some(s) => exists |i: int| 0 <= i < syms.len() && #[trigger] syms[i] == s && hit(syms[i], p) && forall |j: int| 0 <= j < i ==> !hit(#[trigger] syms[j], p),
        None => forall |j: int| 0 <= j < syms.len() ==> !hit(#[trigger] syms[j], p),
    }
}

// a name on one line: every position from its first character through the one just after its last is inside
proof fn lemma_single_line_name(r: ast::Range, col: usize)
    requires r.start.line_col.0 == r.end.line_col.0, r.start.line_col.1 <= col <= r.end.line_col.1
    ensures contains_lc(r, (r.start.line_col.0, col))
{
}

// filter_symbols: v is what scanning the traversal sequence keeps: exactly the symbols the predicate accepted, in visit order
spec fn scan_ok<'a, F: FnMut(&Symbol<'a>) -> bool>(syms: Seq<Symbol<'a>>, n: int, v: Seq<Symbol<'a>>, f: F) -> bool
    decreases n
{
    if n <= 0 { v.len() == 0 }
    else {
        (v.len() > 0 && v.last() == syms[n - 1] && f.ensures((&syms[n - 1],), true) && scan_ok(syms, n - 1, v.drop_last(), f))
        || (f.ensures((&syms[n - 1],), false) && scan_ok(syms, n - 1, v, f))
    }
}

// class V for walk_symbols' plain callback
trait SymbolSink<'a> {
    type Fixed;
    #[verifier::prophetic]
    spec fn fixed(&self) -> Self::Fixed;
    spec fn log(&self) -> Seq<Symbol<'a>>;
    spec fn inv(&self) -> bool;
    fn visit(&mut self, s: Symbol<'a>)
        requires old(self).inv()
        ensures final(self).inv(), final(self).log() == old(self).log().push(s), final(self).fixed() == old(self).fixed();
}
// scanning a longer sequence up to n does not look at what comes after n
proof fn lemma_scan_ok_prefix<'a, F: FnMut(&Symbol<'a>) -> bool>(syms: Seq<Symbol<'a>>, x: Symbol<'a>, n: int, v: Seq<Symbol<'a>>, f: F)
    requires 0 <= n <= syms.len()
    ensures scan_ok(syms.push(x), n, v, f) == scan_ok(syms, n, v, f)
    decreases n
{
    if n > 0 {
        assert(syms.push(x)[n - 1] == syms[n - 1]);
        lemma_scan_ok_prefix(syms, x, n - 1, v, f);
        if v.len() > 0 { lemma_scan_ok_prefix(syms, x, n - 1, v.drop_last(), f); }
    }
}
