// ---------- spec of C05 (type resolution), written from the property statement ----------
// built-in simple names (statement: IBinder, FileDescriptor, ParcelFileDescriptor, ParcelableHolder)
spec fn android_name(a: AndroidTypeKind) -> Seq<char> {
    match a {
        AndroidTypeKind::IBinder => "IBinder"@,
        AndroidTypeKind::FileDescriptor => "FileDescriptor"@,
        AndroidTypeKind::ParcelFileDescriptor => "ParcelFileDescriptor"@,
        AndroidTypeKind::ParcelableHolder => "ParcelableHolder"@,
    }
}
// only android.os.ParcelFileDescriptor may be written fully qualified without an import
spec fn can_q(a: AndroidTypeKind) -> bool { a is ParcelFileDescriptor }
// the qualified-name table is data of the code base (spec twin of AndroidTypeKind::get_qualified_name)
spec fn android_qname(a: AndroidTypeKind) -> Seq<char> { AndroidTypeKind::android_qname_twin(&a)@ }

// an import serves a written name when it equals it or ends with '.' + name (so XFoo never matches Foo)
spec fn import_matches(p: Seq<char>, name: Seq<char>) -> bool { p == name || seq_ends_with(p, "."@ + name) }

spec fn qual_builtin(name: Seq<char>) -> bool { exists |a: AndroidTypeKind| android_qname(a) == name && can_q(a) }
spec fn is_builtin_qname(p: Seq<char>) -> bool { exists |a: AndroidTypeKind| android_qname(a) == p }
spec fn has_import(imports: Set<String>, name: Seq<char>) -> bool { exists |p: String| imports.contains(p) && import_matches(p@, name) }
spec fn has_exact_import(imports: Set<String>, name: Seq<char>) -> bool { exists |p: String| #[trigger] imports.contains(p) && p@ == name }
spec fn has_fwd(declared: Set<String>, name: Seq<char>) -> bool { !name.contains('.') && exists |p: String| declared.contains(p) && p@ == name }
spec fn simple_builtin(name: Seq<char>) -> bool { exists |a: AndroidTypeKind| android_name(a) == name }
spec fn lookup_kind(defined: Map<String, ResolvedItemKind>, p: String) -> ResolvedItemKind {
    if defined.contains_key(p) { defined[p] } else { ResolvedItemKind::UnknownImport }
}

// Which final kind is acceptable for a written name (result-side phrasing: the payload is the witness).
// Order: qualified built-in; import (a built-in stays that built-in); unqualified forward declaration;
// built-in simple name; otherwise it stays unresolved.
spec fn allowed(k: TypeKind, name: Seq<char>, imports: Set<String>, declared: Set<String>, defined: Map<String, ResolvedItemKind>) -> bool {
    match k {
        TypeKind::AndroidType(a) =>
            (android_qname(a) == name && (can_q(a) || has_exact_import(imports, name)))
            || (!qual_builtin(name) && exists |p: String| imports.contains(p) && import_matches(p@, name) && android_qname(a) == p@)
            || (!qual_builtin(name) && !has_import(imports, name) && !has_fwd(declared, name) && android_name(a) == name),
        TypeKind::ResolvedItem(p, rk) =>
            (!qual_builtin(name) && imports.contains(p) && import_matches(p@, name) && rk == lookup_kind(defined, p)
                && (!is_builtin_qname(p@) || defined.contains_key(p)))
            || (!qual_builtin(name) && !has_import(imports, name) && declared.contains(p) && p@ == name && !name.contains('.')
                && rk == ResolvedItemKind::ForwardDeclaredParcelable),
        TypeKind::Unresolved =>
            !qual_builtin(name) && !has_import(imports, name) && !has_fwd(declared, name) && !simple_builtin(name),
        _ => false,
    }
}

// the qualified-name table names four different things (literals revealed mechanically from the current source)
proof fn lemma_qnames_distinct()
    ensures
        forall |a: AndroidTypeKind, b: AndroidTypeKind| android_qname(a) == android_qname(b) ==> a == b,
        forall |a: AndroidTypeKind, b: AndroidTypeKind| android_qname(a) != android_name(b),
{
    reveal_strlit("IBinder"); reveal_strlit("FileDescriptor"); reveal_strlit("ParcelFileDescriptor"); reveal_strlit("ParcelableHolder");
    assert("IBinder"@.len() == 7); assert("FileDescriptor"@.len() == 14); assert("ParcelFileDescriptor"@.len() == 20); assert("ParcelableHolder"@.len() == 16);
    /*@REVEAL_LITERALS src/ast.rs impl AndroidTypeKind::fn get_qualified_name@*/
}

// near misses never match
proof fn lemma_near_miss(p: Seq<char>, name: Seq<char>)
    requires import_matches(p, name), p != name
    ensures p.len() > name.len(), p[p.len() - name.len() - 1] == '.', p.subrange(p.len() - name.len(), p.len() as int) == name
{
    let suf = "."@ + name;
    reveal_strlit(".");
    assert(suf.len() == name.len() + 1);
    let tail = p.subrange(p.len() - suf.len(), p.len() as int);
    assert(tail == suf);
    assert(tail[0] == suf[0]);
    assert(p.subrange(p.len() - name.len(), p.len() as int) =~= suf.subrange(1, suf.len() as int)) by {
        assert forall |i: int| 0 <= i < name.len() implies p.subrange(p.len() - name.len(), p.len() as int)[i] == suf.subrange(1, suf.len() as int)[i] by {
            assert(tail[i + 1] == suf[i + 1]);
        }
    }
    assert(suf.subrange(1, suf.len() as int) =~= name);
}
