// ---------- names and keys (C17 / C13 / C05 / C06), written from the property statements ----------
spec fn item_name(it: ast::Item) -> Seq<char> {
    match it {
        ast::Item::Interface(i) => i.name@,
        ast::Item::Parcelable(p) => p.name@,
        ast::Item::Enum(e) => e.name@,
    }
}

// the key under which a file is registered: `package.Name`
spec fn key_of(a: ast::Aidl) -> Seq<char> { a.package.name@ + "."@ + item_name(a.item) }

spec fn kind_of(it: ast::Item) -> ResolvedItemKind {
    match it {
        ast::Item::Interface(_) => ResolvedItemKind::Interface,
        ast::Item::Parcelable(_) => ResolvedItemKind::Parcelable,
        ast::Item::Enum(_) => ResolvedItemKind::Enum,
    }
}

// dotted name of an import / forward declaration
spec fn import_qname(i: ast::Import) -> Seq<char> {
    if i.path@.len() == 0 { i.name@ } else { i.path@ + "."@ + i.name@ }
}

