// ---------- spec of C20, written from the property statement ----------
// every token of the expectation set is named, nothing else is:
//   0 -> ""   1 -> "Expected a"   2 -> "Expected a or b"   n>=3 -> "Expected one of v0, .., v(n-2) or v(n-1)"
spec fn render(v: Seq<String>) -> Seq<char> {
    if v.len() == 0 { Seq::<char>::empty() }
    else if v.len() == 1 { "Expected "@ + v[0]@ }
    else if v.len() == 2 { "Expected "@ + v[0]@ + " or "@ + v[1]@ }
    else { "Expected one of "@ + join_spec(v.subrange(0, v.len() - 1), ", "@) + " or "@ + v[v.len() - 1]@ }
}

// residual of known finding C20.render: the only tolerated deviation is the recorded one (v[n-2] missing)
spec fn render_known_defect(v: Seq<String>) -> Seq<char> {
    if v.len() >= 3 { "Expected one of "@ + join_spec(v.subrange(0, v.len() - 2), ", "@) + " or "@ + v[v.len() - 1]@ }
    else { render(v) }
}
spec fn render_residual(v: Seq<String>, m: Seq<char>) -> bool {
    m == render(v) || m == render_known_defect(v)
}

// the message of a syntax diagnostic ends with the rendering, verbatim
spec fn ends_with_seq(m: Seq<char>, t: Seq<char>) -> bool {
    m.len() >= t.len() && m.subrange(m.len() - t.len(), m.len() as int) =~= t
}
spec fn embeds(m: Seq<char>, v: Seq<String>) -> bool {
    ends_with_seq(m, render(v)) || ends_with_seq(m, render_known_defect(v))
}

spec fn perr_pos_ok(lookup: &line_col::LineColLookup, e: ParseError) -> bool {
    match e {
        lalrpop_util::ParseError::InvalidToken { location } => lookup.pos_ok(location),
        lalrpop_util::ParseError::UnrecognizedEOF { location, expected } => lookup.pos_ok(location),
        lalrpop_util::ParseError::UnrecognizedToken { token, expected } => lookup.pos_ok(token.0) && lookup.pos_ok(token.2),
        lalrpop_util::ParseError::ExtraToken { token } => lookup.pos_ok(token.0) && lookup.pos_ok(token.2),
        lalrpop_util::ParseError::User { error } => true,
    }
}

// C04: a syntax diagnostic covers exactly the offending token; empty range at an unlexable character / at EOF
spec fn perr_range(lookup: &line_col::LineColLookup, e: ParseError) -> ast::Range {
    match e {
        lalrpop_util::ParseError::InvalidToken { location } => range_at(lookup, location, location),
        lalrpop_util::ParseError::UnrecognizedEOF { location, expected } => range_at(lookup, location, location),
        lalrpop_util::ParseError::UnrecognizedToken { token, expected } => range_at(lookup, token.0, token.2),
        lalrpop_util::ParseError::ExtraToken { token } => range_at(lookup, token.0, token.2),
        lalrpop_util::ParseError::User { error } => arbitrary(),
    }
}

spec fn perr_expected(e: ParseError) -> Option<Seq<String>> {
    match e {
        lalrpop_util::ParseError::UnrecognizedEOF { location, expected } => Some(expected@),
        lalrpop_util::ParseError::UnrecognizedToken { token, expected } => Some(expected@),
        _ => None,
    }
}

// C01/C03/C04/C20 for one parse error
spec fn perr_diag_ok(lookup: &line_col::LineColLookup, e: ParseError, r: Option<Diagnostic>) -> bool {
    &&& (r is None <==> e is User)
    &&& (r is Some ==> r->0.kind is Error && r->0.range == perr_range(lookup, e) && r->0.related_infos@.len() == 0)
    &&& (r is Some && perr_expected(e) is Some ==> embeds(r->0.message@, perr_expected(e)->0))
}
