// ---------- class V for the symbol walker: a recorder that also logs its answers ----------
trait SymbolVisitor<'a, V> {
    type Fixed;                                   // whatever the callback never changes
    #[verifier::prophetic]
    spec fn fixed(&self) -> Self::Fixed;
    spec fn log(&self) -> Seq<Symbol<'a>>;
    spec fn answers(&self) -> Seq<ControlFlow<V>>;
    spec fn inv(&self) -> bool;                   // an invariant of the callback's own choosing
    fn visit(&mut self, s: Symbol<'a>) -> (r: ControlFlow<V>)
        requires old(self).inv()
        ensures
            final(self).inv(),
            final(self).log() == old(self).log().push(s),
            final(self).answers() == old(self).answers().push(r),
            final(self).fixed() == old(self).fixed();
}

// the visitor was called exactly on xs, in order, and answered Continue every time
spec fn grew_continue<'a, V, F: SymbolVisitor<'a, V>>(o: F, n: F, xs: Seq<Symbol<'a>>) -> bool {
    &&& n.log() =~= o.log() + xs
    &&& n.answers().len() == o.answers().len() + xs.len()
    &&& forall |j: int| 0 <= j < o.answers().len() ==> #[trigger] n.answers()[j] == o.answers()[j]
    &&& forall |j: int| o.answers().len() <= j < n.answers().len() ==> #[trigger] n.answers()[j] is Continue
}
// the walk stopped at once at the first Break answer, which is what it returns
// ... after having been offered a prefix of xs, in order
spec fn grew_break<'a, V, F: SymbolVisitor<'a, V>>(o: F, n: F, xs: Seq<Symbol<'a>>, v: V) -> bool {
    &&& n.log().len() - o.log().len() <= xs.len()
    &&& forall |j: int| o.log().len() <= j < n.log().len() ==> #[trigger] n.log()[j] == xs[j - o.log().len()]
    &&& n.answers().len() > o.answers().len()
    &&& n.log().len() - o.log().len() == n.answers().len() - o.answers().len()
    &&& forall |j: int| 0 <= j < o.log().len() ==> #[trigger] n.log()[j] == o.log()[j]
    &&& forall |j: int| 0 <= j < o.answers().len() ==> #[trigger] n.answers()[j] == o.answers()[j]
    &&& forall |j: int| o.answers().len() <= j < n.answers().len() - 1 ==> #[trigger] n.answers()[j] is Continue
    &&& n.answers().last() == ControlFlow::<V, ()>::Break(v)
}
spec fn walk_post<'a, V, F: SymbolVisitor<'a, V>>(o: F, n: F, xs: Seq<Symbol<'a>>, r: ControlFlow<V>) -> bool {
    match r {
        ControlFlow::Continue(_) => grew_continue(o, n, xs),
        ControlFlow::Break(v) => grew_break(o, n, xs, v),
    }
}

// ---------- prefixes of the visit sequence (what a walk that stops early has offered) ----------
spec fn is_prefix<T>(a: Seq<T>, b: Seq<T>) -> bool {
    a.len() <= b.len() && forall |i: int| 0 <= i < a.len() ==> #[trigger] a[i] == b[i]
}
proof fn lemma_prefix_append<T>(a: Seq<T>, x: Seq<T>)
    ensures is_prefix(a, a + x)
{ }
proof fn lemma_prefix_trans<T>(a: Seq<T>, b: Seq<T>, c: Seq<T>)
    requires is_prefix(a, b), is_prefix(b, c)
    ensures is_prefix(a, c)
{ }
proof fn lemma_prefix_head<T>(h: Seq<T>, a: Seq<T>, b: Seq<T>)
    requires is_prefix(a, b)
    ensures is_prefix(h + a, h + b)
{
    assert forall |i: int| 0 <= i < (h + a).len() implies #[trigger] (h + a)[i] == (h + b)[i] by {
        if i >= h.len() { assert(a[i - h.len()] == b[i - h.len()]); }
    }
}
proof fn lemma_ats_concat<'a>(a: Seq<ast::Type>, b: Seq<ast::Type>)
    ensures all_type_syms::<'a>(a + b) =~= all_type_syms::<'a>(a) + all_type_syms::<'a>(b)
{ }
proof fn lemma_flat_kids_prefix(t: ast::Type, k: int, n: int)
    requires 0 <= k <= n <= t.generic_types@.len()
    ensures is_prefix(flat_kids(t, k), flat_kids(t, n))
    decreases n
{
    if k < n {
        lemma_flat_kids_prefix(t, k, n - 1);
        lemma_prefix_append(flat_kids(t, n - 1), flat(t.generic_types@[n - 1]));
        lemma_prefix_trans(flat_kids(t, k), flat_kids(t, n - 1), flat_kids(t, n));
    }
}
// type walk: what has been offered after child k is a prefix of the whole listing of t
proof fn lemma_type_syms_step<'a>(t: &'a ast::Type, k: int)
    requires 0 <= k < t.generic_types@.len()
    ensures
        all_type_syms::<'a>(flat_kids(*t, k + 1)) =~= all_type_syms::<'a>(flat_kids(*t, k)) + all_type_syms::<'a>(flat(t.generic_types@[k])),
        t.kind is Array ==> is_prefix(all_type_syms::<'a>(flat_kids(*t, k)) + all_type_syms::<'a>(flat(t.generic_types@[k])), all_type_syms::<'a>(flat(*t))),
        !(t.kind is Array) ==> is_prefix((seq![Symbol::Type(t)] + all_type_syms::<'a>(flat_kids(*t, k))) + all_type_syms::<'a>(flat(t.generic_types@[k])), all_type_syms::<'a>(flat(*t))),
{
    let n = t.generic_types@.len() as int;
    lemma_ats_concat(flat_kids(*t, k), flat(t.generic_types@[k]));
    lemma_flat_kids_prefix(*t, k + 1, n);
    let a = flat_kids(*t, k + 1);
    let b = flat_kids(*t, n);
    assert(is_prefix(all_type_syms::<'a>(a), all_type_syms::<'a>(b)));
    if t.kind is Array {
        lemma_ats_concat(b, seq![*t]);
        lemma_prefix_append(all_type_syms::<'a>(b), all_type_syms::<'a>(seq![*t]));
        lemma_prefix_trans(all_type_syms::<'a>(a), all_type_syms::<'a>(b), all_type_syms::<'a>(flat(*t)));
    } else {
        lemma_ats_concat(seq![*t], b);
        assert(all_type_syms::<'a>(seq![*t]) =~= seq![Symbol::Type(t)]);
        lemma_prefix_head(seq![Symbol::Type(t)], all_type_syms::<'a>(a), all_type_syms::<'a>(b));
        assert((seq![Symbol::Type(t)] + all_type_syms::<'a>(flat_kids(*t, k))) + all_type_syms::<'a>(flat(t.generic_types@[k])) =~= seq![Symbol::Type(t)] + all_type_syms::<'a>(a));
    }
}

// an inner walk that stopped early, after `p` had been offered in full: what was offered in total is a prefix of xs
proof fn lemma_break_inner<'a, V, F: SymbolVisitor<'a, V>>(o: F, fb: F, n: F, p: Seq<Symbol<'a>>, xi: Seq<Symbol<'a>>, xs: Seq<Symbol<'a>>, v: V)
    requires grew_continue(o, fb, p), grew_break(fb, n, xi, v), is_prefix(p + xi, xs)
    ensures grew_break(o, n, xs, v)
{
    assert forall |j: int| o.log().len() <= j < n.log().len() implies #[trigger] n.log()[j] == xs[j - o.log().len()] by {
        if j < fb.log().len() {
            assert(n.log()[j] == fb.log()[j]);
            assert(fb.log()[j] == p[j - o.log().len()]);
            assert((p + xi)[j - o.log().len()] == p[j - o.log().len()]);
        } else {
            assert(n.log()[j] == xi[j - fb.log().len()]);
            assert((p + xi)[j - o.log().len()] == xi[j - fb.log().len()]);
        }
    }
}
// the callback answered Break at `sym`, after `p` had been offered in full
proof fn lemma_break_visit<'a, V, F: SymbolVisitor<'a, V>>(o: F, fb: F, n: F, p: Seq<Symbol<'a>>, sym: Symbol<'a>, xs: Seq<Symbol<'a>>, v: V)
    requires grew_continue(o, fb, p), n.log() == fb.log().push(sym), n.answers() == fb.answers().push(ControlFlow::<V, ()>::Break(v)), is_prefix(p.push(sym), xs)
    ensures grew_break(o, n, xs, v)
{
    assert forall |j: int| o.log().len() <= j < n.log().len() implies #[trigger] n.log()[j] == xs[j - o.log().len()] by {
        if j < fb.log().len() {
            assert(n.log()[j] == fb.log()[j]);
            assert(fb.log()[j] == p[j - o.log().len()]);
            assert(p.push(sym)[j - o.log().len()] == p[j - o.log().len()]);
        } else {
            assert(p.push(sym)[j - o.log().len()] == sym);
        }
    }
}
// a + x is a prefix of c whenever a + x + y is
proof fn lemma_prefix_cut<T>(a: Seq<T>, y: Seq<T>, c: Seq<T>)
    requires is_prefix(a + y, c)
    ensures is_prefix(a, c)
{
    assert forall |i: int| 0 <= i < a.len() implies #[trigger] a[i] == c[i] by { assert((a + y)[i] == a[i]); }
}
proof fn lemma_import_syms_prefix<'a>(is: Seq<ast::Import>, k: int, n: int)
    requires 0 <= k <= n <= is.len()
    ensures is_prefix(import_syms::<'a>(is, k), import_syms::<'a>(is, n))
    decreases n
{
    if k < n { lemma_import_syms_prefix(is, k, n - 1); }
}
proof fn lemma_arg_syms_prefix<'a>(m: &'a ast::Method, k: int, n: int)
    requires 0 <= k <= n <= m.args@.len()
    ensures is_prefix(arg_syms(m, k), arg_syms(m, n))
    decreases n
{
    if k < n {
        lemma_arg_syms_prefix(m, k, n - 1);
        lemma_prefix_append(arg_syms(m, n - 1).push(Symbol::Arg(&m.args@[n - 1], m)), all_type_syms(flat(m.args@[n - 1].arg_type)));
        lemma_prefix_append(arg_syms(m, n - 1), seq![Symbol::Arg(&m.args@[n - 1], m)]);
        assert(arg_syms(m, n - 1) + seq![Symbol::Arg(&m.args@[n - 1], m)] =~= arg_syms(m, n - 1).push(Symbol::Arg(&m.args@[n - 1], m)));
        lemma_prefix_trans(arg_syms(m, n - 1), arg_syms(m, n - 1).push(Symbol::Arg(&m.args@[n - 1], m)), arg_syms(m, n));
        lemma_prefix_trans(arg_syms(m, k), arg_syms(m, n - 1), arg_syms(m, n));
    }
}
proof fn lemma_iface_syms_prefix<'a>(i: &'a ast::Interface, k: int, n: int, all: bool)
    requires 0 <= k <= n <= i.elements@.len()
    ensures is_prefix(iface_syms(i, k, all), iface_syms(i, n, all))
    decreases n
{
    if k < n {
        lemma_iface_syms_prefix(i, k, n - 1, all);
        lemma_prefix_append(iface_syms(i, n - 1, all), iface_el_syms(i, &i.elements@[n - 1], all));
        lemma_prefix_trans(iface_syms(i, k, all), iface_syms(i, n - 1, all), iface_syms(i, n, all));
    }
}
proof fn lemma_parc_syms_prefix<'a>(p: &'a ast::Parcelable, k: int, n: int, all: bool)
    requires 0 <= k <= n <= p.elements@.len()
    ensures is_prefix(parc_syms(p, k, all), parc_syms(p, n, all))
    decreases n
{
    if k < n {
        lemma_parc_syms_prefix(p, k, n - 1, all);
        lemma_prefix_append(parc_syms(p, n - 1, all), parc_el_syms(p, &p.elements@[n - 1], all));
        lemma_prefix_trans(parc_syms(p, k, all), parc_syms(p, n - 1, all), parc_syms(p, n, all));
    }
}
proof fn lemma_enum_syms_prefix<'a>(e: &'a ast::Enum, k: int, n: int)
    requires 0 <= k <= n <= e.elements@.len()
    ensures is_prefix(enum_syms(e, k), enum_syms(e, n))
    decreases n
{
    if k < n { lemma_enum_syms_prefix(e, k, n - 1); }
}

// ---------- per-site prefix facts of the symbol walk (every place where the walk can stop) ----------
proof fn lemma_import_step<'a>(a: &'a ast::Aidl, k: int)
    requires 0 <= k < a.imports@.len()
    ensures is_prefix((seq![Symbol::Package(&a.package)] + import_syms(a.imports@, k)).push(Symbol::Import(&a.imports@[k])), symbols_of(a, SymbolFilter::All))
{
    let n = a.imports@.len() as int;
    let pkg = seq![Symbol::Package(&a.package)];
    lemma_import_syms_prefix(a.imports@, k + 1, n);
    lemma_prefix_head(pkg, import_syms(a.imports@, k + 1), import_syms(a.imports@, n));
    assert((pkg + import_syms(a.imports@, k)).push(Symbol::Import(&a.imports@[k])) =~= pkg + import_syms(a.imports@, k + 1));
    lemma_prefix_append(pkg + import_syms(a.imports@, n), seq![item_sym(a)]);
    lemma_prefix_append(head_syms(a, SymbolFilter::All), member_syms(a, SymbolFilter::All));
    lemma_prefix_trans(pkg + import_syms(a.imports@, k + 1), pkg + import_syms(a.imports@, n), head_syms(a, SymbolFilter::All));
    lemma_prefix_trans(pkg + import_syms(a.imports@, k + 1), head_syms(a, SymbolFilter::All), symbols_of(a, SymbolFilter::All));
}
// element k of an interface: everything up to and including its symbols is a prefix of the whole walk
proof fn lemma_iface_step<'a>(a: &'a ast::Aidl, i: &'a ast::Interface, k: int, filter: SymbolFilter)
    requires a.item == ast::Item::Interface(*i), !(filter is ItemsOnly), 0 <= k < i.elements@.len()
    ensures is_prefix((head_syms(a, filter) + iface_syms(i, k, filter is All)) + iface_el_syms(i, &i.elements@[k], filter is All), symbols_of(a, filter))
{
    let all = filter is All;
    let n = i.elements@.len() as int;
    lemma_iface_syms_prefix(i, k + 1, n, all);
    lemma_prefix_head(head_syms(a, filter), iface_syms(i, k + 1, all), iface_syms(i, n, all));
    assert((head_syms(a, filter) + iface_syms(i, k, all)) + iface_el_syms(i, &i.elements@[k], all) =~= head_syms(a, filter) + iface_syms(i, k + 1, all));
    assert(member_syms(a, filter) == iface_syms(i, n, all));
}
proof fn lemma_iface_method<'a>(a: &'a ast::Aidl, i: &'a ast::Interface, k: int, m: &'a ast::Method, filter: SymbolFilter)
    requires a.item == ast::Item::Interface(*i), !(filter is ItemsOnly), 0 <= k < i.elements@.len(), i.elements@[k] == ast::InterfaceElement::Method(*m)
    ensures
        is_prefix((head_syms(a, filter) + iface_syms(i, k, filter is All)).push(Symbol::Method(m, i)), symbols_of(a, filter)),
        filter is All ==> is_prefix((head_syms(a, filter) + iface_syms(i, k, true)).push(Symbol::Method(m, i)) + all_type_syms(flat(m.return_type)), symbols_of(a, filter)),
{
    lemma_iface_step(a, i, k, filter);
    let pk = head_syms(a, filter) + iface_syms(i, k, filter is All);
    let ek = iface_el_syms(i, &i.elements@[k], filter is All);
    if filter is All {
        let args = arg_syms(m, m.args@.len() as int);
        assert(pk + ek =~= (pk.push(Symbol::Method(m, i)) + all_type_syms(flat(m.return_type))) + args);
        lemma_prefix_cut(pk.push(Symbol::Method(m, i)) + all_type_syms(flat(m.return_type)), args, symbols_of(a, filter));
        lemma_prefix_cut(pk.push(Symbol::Method(m, i)), all_type_syms(flat(m.return_type)), symbols_of(a, filter));
    } else {
        assert(pk + ek =~= pk.push(Symbol::Method(m, i)));
    }
}
proof fn lemma_iface_arg<'a>(a: &'a ast::Aidl, i: &'a ast::Interface, k: int, m: &'a ast::Method, j: int, filter: SymbolFilter)
    requires a.item == ast::Item::Interface(*i), filter is All, 0 <= k < i.elements@.len(), i.elements@[k] == ast::InterfaceElement::Method(*m), 0 <= j < m.args@.len()
    ensures
        is_prefix((head_syms(a, filter) + iface_syms(i, k, true) + seq![Symbol::Method(m, i)] + all_type_syms(flat(m.return_type)) + arg_syms(m, j)).push(Symbol::Arg(&m.args@[j], m)), symbols_of(a, filter)),
        is_prefix((head_syms(a, filter) + iface_syms(i, k, true) + seq![Symbol::Method(m, i)] + all_type_syms(flat(m.return_type)) + arg_syms(m, j)).push(Symbol::Arg(&m.args@[j], m)) + all_type_syms(flat(m.args@[j].arg_type)), symbols_of(a, filter)),
{
    lemma_iface_step(a, i, k, filter);
    let n = m.args@.len() as int;
    let pk = head_syms(a, filter) + iface_syms(i, k, true);
    let base = pk + seq![Symbol::Method(m, i)] + all_type_syms(flat(m.return_type));
    let ek = iface_el_syms(i, &i.elements@[k], true);
    lemma_arg_syms_prefix(m, j + 1, n);
    lemma_prefix_head(base, arg_syms(m, j + 1), arg_syms(m, n));
    assert(pk + ek =~= base + arg_syms(m, n));
    lemma_prefix_trans(base + arg_syms(m, j + 1), base + arg_syms(m, n), symbols_of(a, filter));
    let full = (base + arg_syms(m, j)).push(Symbol::Arg(&m.args@[j], m)) + all_type_syms(flat(m.args@[j].arg_type));
    assert(full =~= base + arg_syms(m, j + 1));
    lemma_prefix_cut((base + arg_syms(m, j)).push(Symbol::Arg(&m.args@[j], m)), all_type_syms(flat(m.args@[j].arg_type)), symbols_of(a, filter));
}
proof fn lemma_iface_const<'a>(a: &'a ast::Aidl, i: &'a ast::Interface, k: int, c: &'a ast::Const, filter: SymbolFilter)
    requires a.item == ast::Item::Interface(*i), !(filter is ItemsOnly), 0 <= k < i.elements@.len(), i.elements@[k] == ast::InterfaceElement::Const(*c)
    ensures
        is_prefix((head_syms(a, filter) + iface_syms(i, k, filter is All)).push(Symbol::Const(c, ConstOwner::Interface(i))), symbols_of(a, filter)),
        filter is All ==> is_prefix((head_syms(a, filter) + iface_syms(i, k, true)).push(Symbol::Const(c, ConstOwner::Interface(i))) + all_type_syms(flat(c.const_type)), symbols_of(a, filter)),
{
    lemma_iface_step(a, i, k, filter);
    let pk = head_syms(a, filter) + iface_syms(i, k, filter is All);
    let ek = iface_el_syms(i, &i.elements@[k], filter is All);
    let s = Symbol::Const(c, ConstOwner::Interface(i));
    if filter is All {
        assert(pk + ek =~= pk.push(s) + all_type_syms(flat(c.const_type)));
        lemma_prefix_cut(pk.push(s), all_type_syms(flat(c.const_type)), symbols_of(a, filter));
    } else {
        assert(pk + ek =~= pk.push(s));
    }
}
proof fn lemma_parc_step<'a>(a: &'a ast::Aidl, p: &'a ast::Parcelable, k: int, filter: SymbolFilter)
    requires a.item == ast::Item::Parcelable(*p), !(filter is ItemsOnly), 0 <= k < p.elements@.len()
    ensures is_prefix((head_syms(a, filter) + parc_syms(p, k, filter is All)) + parc_el_syms(p, &p.elements@[k], filter is All), symbols_of(a, filter))
{
    let all = filter is All;
    let n = p.elements@.len() as int;
    lemma_parc_syms_prefix(p, k + 1, n, all);
    lemma_prefix_head(head_syms(a, filter), parc_syms(p, k + 1, all), parc_syms(p, n, all));
    assert((head_syms(a, filter) + parc_syms(p, k, all)) + parc_el_syms(p, &p.elements@[k], all) =~= head_syms(a, filter) + parc_syms(p, k + 1, all));
    assert(member_syms(a, filter) == parc_syms(p, n, all));
}
proof fn lemma_parc_field<'a>(a: &'a ast::Aidl, p: &'a ast::Parcelable, k: int, fi: &'a ast::Field, filter: SymbolFilter)
    requires a.item == ast::Item::Parcelable(*p), !(filter is ItemsOnly), 0 <= k < p.elements@.len(), p.elements@[k] == ast::ParcelableElement::Field(*fi)
    ensures
        is_prefix((head_syms(a, filter) + parc_syms(p, k, filter is All)).push(Symbol::Field(fi, p)), symbols_of(a, filter)),
        filter is All ==> is_prefix((head_syms(a, filter) + parc_syms(p, k, true)).push(Symbol::Field(fi, p)) + all_type_syms(flat(fi.field_type)), symbols_of(a, filter)),
{
    lemma_parc_step(a, p, k, filter);
    let pk = head_syms(a, filter) + parc_syms(p, k, filter is All);
    let ek = parc_el_syms(p, &p.elements@[k], filter is All);
    let s = Symbol::Field(fi, p);
    if filter is All {
        assert(pk + ek =~= pk.push(s) + all_type_syms(flat(fi.field_type)));
        lemma_prefix_cut(pk.push(s), all_type_syms(flat(fi.field_type)), symbols_of(a, filter));
    } else {
        assert(pk + ek =~= pk.push(s));
    }
}
proof fn lemma_parc_const<'a>(a: &'a ast::Aidl, p: &'a ast::Parcelable, k: int, c: &'a ast::Const, filter: SymbolFilter)
    requires a.item == ast::Item::Parcelable(*p), !(filter is ItemsOnly), 0 <= k < p.elements@.len(), p.elements@[k] == ast::ParcelableElement::Const(*c)
    ensures
        is_prefix((head_syms(a, filter) + parc_syms(p, k, filter is All)).push(Symbol::Const(c, ConstOwner::Parcelable(p))), symbols_of(a, filter)),
        filter is All ==> is_prefix((head_syms(a, filter) + parc_syms(p, k, true)).push(Symbol::Const(c, ConstOwner::Parcelable(p))) + all_type_syms(flat(c.const_type)), symbols_of(a, filter)),
{
    lemma_parc_step(a, p, k, filter);
    let pk = head_syms(a, filter) + parc_syms(p, k, filter is All);
    let ek = parc_el_syms(p, &p.elements@[k], filter is All);
    let s = Symbol::Const(c, ConstOwner::Parcelable(p));
    if filter is All {
        assert(pk + ek =~= pk.push(s) + all_type_syms(flat(c.const_type)));
        lemma_prefix_cut(pk.push(s), all_type_syms(flat(c.const_type)), symbols_of(a, filter));
    } else {
        assert(pk + ek =~= pk.push(s));
    }
}
proof fn lemma_enum_step<'a>(a: &'a ast::Aidl, e: &'a ast::Enum, k: int, filter: SymbolFilter)
    requires a.item == ast::Item::Enum(*e), !(filter is ItemsOnly), 0 <= k < e.elements@.len()
    ensures is_prefix((head_syms(a, filter) + enum_syms(e, k)).push(Symbol::EnumElement(&e.elements@[k], e)), symbols_of(a, filter))
{
    let n = e.elements@.len() as int;
    lemma_enum_syms_prefix(e, k + 1, n);
    lemma_prefix_head(head_syms(a, filter), enum_syms(e, k + 1), enum_syms(e, n));
    assert((head_syms(a, filter) + enum_syms(e, k)).push(Symbol::EnumElement(&e.elements@[k], e)) =~= head_syms(a, filter) + enum_syms(e, k + 1));
    assert(member_syms(a, filter) == enum_syms(e, n));
}
