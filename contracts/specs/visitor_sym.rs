// ---------- class V for the symbol walker: a recorder that also logs its answers ----------
trait SymbolVisitor<'a, V> {
    spec fn log(&self) -> Seq<Symbol<'a>>;
    spec fn answers(&self) -> Seq<ControlFlow<V>>;
    fn visit(&mut self, s: Symbol<'a>) -> (r: ControlFlow<V>)
        ensures
            final(self).log() == old(self).log().push(s),
            final(self).answers() == old(self).answers().push(r);
}

// the visitor was called exactly on xs, in order, and answered Continue every time
spec fn grew_continue<'a, V, F: SymbolVisitor<'a, V>>(o: F, n: F, xs: Seq<Symbol<'a>>) -> bool {
    &&& n.log() =~= o.log() + xs
    &&& n.answers().len() == o.answers().len() + xs.len()
    &&& forall |j: int| 0 <= j < o.answers().len() ==> #[trigger] n.answers()[j] == o.answers()[j]
    &&& forall |j: int| o.answers().len() <= j < n.answers().len() ==> #[trigger] n.answers()[j] is Continue
}
// the walk stopped at once at the first Break answer, which is what it returns
spec fn grew_break<'a, V, F: SymbolVisitor<'a, V>>(o: F, n: F, v: V) -> bool {
    &&& n.answers().len() > o.answers().len()
    &&& n.log().len() - o.log().len() == n.answers().len() - o.answers().len()
    &&& forall |j: int| 0 <= j < o.log().len() ==> #[trigger] n.log()[j] == o.log()[j]
    &&& forall |j: int| 0 <= j < o.answers().len() ==> #[trigger] n.answers()[j] == o.answers()[j]
    &&& forall |j: int| o.answers().len() <= j < n.answers().len() - 1 ==> #[trigger] n.answers()[j] is Continue
    &&& n.answers().last() == ControlFlow::<V, ()>::Break(v)
}
spec fn walk_post<'a, V, F: SymbolVisitor<'a, V>>(o: F, n: F, xs: Seq<Symbol<'a>>, r: ControlFlow<V>) -> bool {
    match r {
        ControlFlow::Continue(_) => grew_continue(o, n, xs),
        ControlFlow::Break(v) => grew_break(o, n, v),
    }
}
