// ---------- traversal order (C15 / C16; walker contracts of C05, C06, C08, C09), from the C15 statement ----------
// every type at any nesting depth, in source order, an array's element type before the array
spec fn flat(t: ast::Type) -> Seq<ast::Type>
    decreases t, t.generic_types@.len() + 1
{
    if t.kind is Array { flat_kids(t, t.generic_types@.len() as int) + seq![t] }
    else { seq![t] + flat_kids(t, t.generic_types@.len() as int) }
}
spec fn flat_kids(t: ast::Type, n: int) -> Seq<ast::Type>
    decreases t, n
{
    if n <= 0 || n > t.generic_types@.len() { Seq::<ast::Type>::empty() }
    else { flat_kids(t, n - 1) + flat(t.generic_types@[n - 1]) }
}

// the types of one member, in source order
spec fn arg_types(args: Seq<ast::Arg>, n: int) -> Seq<ast::Type>
    decreases n
{
    if n <= 0 { Seq::<ast::Type>::empty() } else { arg_types(args, n - 1) + flat(args[n - 1].arg_type) }
}
spec fn iface_el_types(el: ast::InterfaceElement) -> Seq<ast::Type> {
    match el {
        ast::InterfaceElement::Method(m) => flat(m.return_type) + arg_types(m.args@, m.args@.len() as int),
        ast::InterfaceElement::Const(c) => flat(c.const_type),
    }
}
spec fn parc_el_types(el: ast::ParcelableElement) -> Seq<ast::Type> {
    match el {
        ast::ParcelableElement::Field(f) => flat(f.field_type),
        ast::ParcelableElement::Const(c) => flat(c.const_type),
    }
}
spec fn iface_types(els: Seq<ast::InterfaceElement>, n: int) -> Seq<ast::Type>
    decreases n
{
    if n <= 0 { Seq::<ast::Type>::empty() } else { iface_types(els, n - 1) + iface_el_types(els[n - 1]) }
}
spec fn parc_types(els: Seq<ast::ParcelableElement>, n: int) -> Seq<ast::Type>
    decreases n
{
    if n <= 0 { Seq::<ast::Type>::empty() } else { parc_types(els, n - 1) + parc_el_types(els[n - 1]) }
}
// all types of a file (walk_types / walk_types_mut contract)
spec fn types_of(a: ast::Aidl) -> Seq<ast::Type> {
    match a.item {
        ast::Item::Interface(i) => iface_types(i.elements@, i.elements@.len() as int),
        ast::Item::Parcelable(p) => parc_types(p.elements@, p.elements@.len() as int),
        ast::Item::Enum(_) => Seq::<ast::Type>::empty(),
    }
}

// ---- every part of the listing is inside the whole (what lets a callback rely on "this node is one of types_of(ast)") ----
spec fn within(part: Seq<ast::Type>, whole: Seq<ast::Type>) -> bool {
    forall |x: ast::Type| #[trigger] part.contains(x) ==> whole.contains(x)
}
proof fn lemma_within_concat(a: Seq<ast::Type>, b: Seq<ast::Type>)
    ensures within(a, a + b), within(b, a + b)
{
    assert forall |x: ast::Type| #[trigger] a.contains(x) implies (a + b).contains(x) by {
        let i = choose |i: int| 0 <= i < a.len() && a[i] == x;
        assert((a + b)[i] == x);
    }
    assert forall |x: ast::Type| #[trigger] b.contains(x) implies (a + b).contains(x) by {
        let i = choose |i: int| 0 <= i < b.len() && b[i] == x;
        assert((a + b)[a.len() + i] == x);
    }
}
proof fn lemma_flat_kids_within(t: ast::Type, k: int, n: int)
    requires 0 <= k < n <= t.generic_types@.len()
    ensures within(flat(t.generic_types@[k]), flat_kids(t, n))
    decreases n
{
    lemma_within_concat(flat_kids(t, n - 1), flat(t.generic_types@[n - 1]));
    if k < n - 1 { lemma_flat_kids_within(t, k, n - 1); }
}
// a node and the listings of its children are inside its own listing
proof fn lemma_flat_within(t: ast::Type)
    ensures flat(t).contains(t), forall |k: int| 0 <= k < t.generic_types@.len() ==> within(flat(#[trigger] t.generic_types@[k]), flat(t))
{
    let n = t.generic_types@.len() as int;
    let kids = flat_kids(t, n);
    lemma_within_concat(seq![t], kids);
    lemma_within_concat(kids, seq![t]);
    assert(seq![t][0] == t);
    assert(seq![t].contains(t));
    assert forall |k: int| 0 <= k < n implies within(flat(#[trigger] t.generic_types@[k]), flat(t)) by {
        lemma_flat_kids_within(t, k, n);
    }
}
proof fn lemma_arg_types_within(args: Seq<ast::Arg>, j: int, n: int)
    requires 0 <= j < n <= args.len()
    ensures within(flat(args[j].arg_type), arg_types(args, n))
    decreases n
{
    lemma_within_concat(arg_types(args, n - 1), flat(args[n - 1].arg_type));
    if j < n - 1 { lemma_arg_types_within(args, j, n - 1); }
}
proof fn lemma_iface_types_within(els: Seq<ast::InterfaceElement>, k: int, n: int)
    requires 0 <= k < n <= els.len()
    ensures within(iface_el_types(els[k]), iface_types(els, n))
    decreases n
{
    lemma_within_concat(iface_types(els, n - 1), iface_el_types(els[n - 1]));
    if k < n - 1 { lemma_iface_types_within(els, k, n - 1); }
}
proof fn lemma_parc_types_within(els: Seq<ast::ParcelableElement>, k: int, n: int)
    requires 0 <= k < n <= els.len()
    ensures within(parc_el_types(els[k]), parc_types(els, n))
    decreases n
{
    lemma_within_concat(parc_types(els, n - 1), parc_el_types(els[n - 1]));
    if k < n - 1 { lemma_parc_types_within(els, k, n - 1); }
}
// the types of a method: its return type's listing and each argument's are inside the element's listing
proof fn lemma_method_types_within(m: ast::Method)
    ensures
        within(flat(m.return_type), iface_el_types(ast::InterfaceElement::Method(m))),
        forall |j: int| 0 <= j < m.args@.len() ==> within(flat(#[trigger] m.args@[j].arg_type), iface_el_types(ast::InterfaceElement::Method(m))),
{
    let a = arg_types(m.args@, m.args@.len() as int);
    lemma_within_concat(flat(m.return_type), a);
    assert forall |j: int| 0 <= j < m.args@.len() implies within(flat(#[trigger] m.args@[j].arg_type), iface_el_types(ast::InterfaceElement::Method(m))) by {
        lemma_arg_types_within(m.args@, j, m.args@.len() as int);
    }
}

// all methods of a file, constants excluded (walk_methods contract)
spec fn methods_upto(els: Seq<ast::InterfaceElement>, n: int) -> Seq<ast::Method>
    decreases n
{
    if n <= 0 { Seq::<ast::Method>::empty() }
    else {
        match els[n - 1] {
            ast::InterfaceElement::Method(m) => methods_upto(els, n - 1).push(m),
            ast::InterfaceElement::Const(_) => methods_upto(els, n - 1),
        }
    }
}
// the listing up to k is a prefix of the listing up to n, and a method at position k is the next entry
proof fn lemma_methods_upto_next(els: Seq<ast::InterfaceElement>, k: int, n: int)
    requires 0 <= k < n <= els.len()
    ensures
        methods_upto(els, n).len() >= methods_upto(els, k + 1).len(),
        forall |j: int| 0 <= j < methods_upto(els, k + 1).len() ==> methods_upto(els, n)[j] == methods_upto(els, k + 1)[j],
    decreases n
{
    if n > k + 1 { lemma_methods_upto_next(els, k, n - 1); }
}
spec fn methods_of(a: ast::Aidl) -> Seq<ast::Method> {
    match a.item {
        ast::Item::Interface(i) => methods_upto(i.elements@, i.elements@.len() as int),
        _ => Seq::<ast::Method>::empty(),
    }
}

// all (method, argument) pairs of a file in source order (walk_args contract)
spec fn args_upto(m: ast::Method, n: int) -> Seq<(ast::Method, ast::Arg)>
    decreases n
{
    if n <= 0 { Seq::<(ast::Method, ast::Arg)>::empty() } else { args_upto(m, n - 1).push((m, m.args@[n - 1])) }
}
spec fn el_args(el: ast::InterfaceElement) -> Seq<(ast::Method, ast::Arg)> {
    match el {
        ast::InterfaceElement::Method(m) => args_upto(m, m.args@.len() as int),
        ast::InterfaceElement::Const(_) => Seq::<(ast::Method, ast::Arg)>::empty(),
    }
}
spec fn iface_args(els: Seq<ast::InterfaceElement>, n: int) -> Seq<(ast::Method, ast::Arg)>
    decreases n
{
    if n <= 0 { Seq::<(ast::Method, ast::Arg)>::empty() } else { iface_args(els, n - 1) + el_args(els[n - 1]) }
}
spec fn args_of(a: ast::Aidl) -> Seq<(ast::Method, ast::Arg)> {
    match a.item {
        ast::Item::Interface(i) => iface_args(i.elements@, i.elements@.len() as int),
        _ => Seq::<(ast::Method, ast::Arg)>::empty(),
    }
}

// ---- the mutable type walker offers the nodes parent first (no array exception), as they are when offered ----
spec fn pre(t: ast::Type) -> Seq<ast::Type>
    decreases t, t.generic_types@.len() + 1
{ seq![t] + pre_kids(t, t.generic_types@.len() as int) }
spec fn pre_kids(t: ast::Type, n: int) -> Seq<ast::Type>
    decreases t, n
{ if n <= 0 || n > t.generic_types@.len() { Seq::<ast::Type>::empty() } else { pre_kids(t, n - 1) + pre(t.generic_types@[n - 1]) } }
spec fn pre_args(args: Seq<ast::Arg>, n: int) -> Seq<ast::Type>
    decreases n
{ if n <= 0 { Seq::<ast::Type>::empty() } else { pre_args(args, n - 1) + pre(args[n - 1].arg_type) } }
spec fn pre_iface_el(el: ast::InterfaceElement) -> Seq<ast::Type> {
    match el {
        ast::InterfaceElement::Method(m) => pre(m.return_type) + pre_args(m.args@, m.args@.len() as int),
        ast::InterfaceElement::Const(c) => pre(c.const_type),
    }
}
spec fn pre_parc_el(el: ast::ParcelableElement) -> Seq<ast::Type> {
    match el { ast::ParcelableElement::Field(f) => pre(f.field_type), ast::ParcelableElement::Const(c) => pre(c.const_type) }
}
spec fn pre_iface(els: Seq<ast::InterfaceElement>, n: int) -> Seq<ast::Type>
    decreases n
{ if n <= 0 { Seq::<ast::Type>::empty() } else { pre_iface(els, n - 1) + pre_iface_el(els[n - 1]) } }
spec fn pre_parc(els: Seq<ast::ParcelableElement>, n: int) -> Seq<ast::Type>
    decreases n
{ if n <= 0 { Seq::<ast::Type>::empty() } else { pre_parc(els, n - 1) + pre_parc_el(els[n - 1]) } }
spec fn types_pre_of(a: ast::Aidl) -> Seq<ast::Type> {
    match a.item {
        ast::Item::Interface(i) => pre_iface(i.elements@, i.elements@.len() as int),
        ast::Item::Parcelable(p) => pre_parc(p.elements@, p.elements@.len() as int),
        ast::Item::Enum(_) => Seq::<ast::Type>::empty(),
    }
}

// ---- the kinds of the nodes in the same (parent first) order: what the callback left behind, read off the final tree ----
spec fn kpre(t: ast::Type) -> Seq<ast::TypeKind>
    decreases t, t.generic_types@.len() + 1
{ seq![t.kind] + kpre_kids(t, t.generic_types@.len() as int) }
spec fn kpre_kids(t: ast::Type, n: int) -> Seq<ast::TypeKind>
    decreases t, n
{ if n <= 0 || n > t.generic_types@.len() { Seq::<ast::TypeKind>::empty() } else { kpre_kids(t, n - 1) + kpre(t.generic_types@[n - 1]) } }
spec fn kpre_args(args: Seq<ast::Arg>, n: int) -> Seq<ast::TypeKind>
    decreases n
{ if n <= 0 { Seq::<ast::TypeKind>::empty() } else { kpre_args(args, n - 1) + kpre(args[n - 1].arg_type) } }
spec fn kpre_iface_el(el: ast::InterfaceElement) -> Seq<ast::TypeKind> {
    match el {
        ast::InterfaceElement::Method(m) => kpre(m.return_type) + kpre_args(m.args@, m.args@.len() as int),
        ast::InterfaceElement::Const(c) => kpre(c.const_type),
    }
}
spec fn kpre_parc_el(el: ast::ParcelableElement) -> Seq<ast::TypeKind> {
    match el { ast::ParcelableElement::Field(f) => kpre(f.field_type), ast::ParcelableElement::Const(c) => kpre(c.const_type) }
}
spec fn kpre_iface(els: Seq<ast::InterfaceElement>, n: int) -> Seq<ast::TypeKind>
    decreases n
{ if n <= 0 { Seq::<ast::TypeKind>::empty() } else { kpre_iface(els, n - 1) + kpre_iface_el(els[n - 1]) } }
spec fn kpre_parc(els: Seq<ast::ParcelableElement>, n: int) -> Seq<ast::TypeKind>
    decreases n
{ if n <= 0 { Seq::<ast::TypeKind>::empty() } else { kpre_parc(els, n - 1) + kpre_parc_el(els[n - 1]) } }
spec fn kinds_pre_of(a: ast::Aidl) -> Seq<ast::TypeKind> {
    match a.item {
        ast::Item::Interface(i) => kpre_iface(i.elements@, i.elements@.len() as int),
        ast::Item::Parcelable(p) => kpre_parc(p.elements@, p.elements@.len() as int),
        ast::Item::Enum(_) => Seq::<ast::TypeKind>::empty(),
    }
}
// a prefix of the listing does not depend on what comes later (the walker changes element k after listing 0..k)
// (the two indices are separate variables so that the solver may match `k` against `k + 1 - 1`)
proof fn lemma_kpre_kids_frame(a: ast::Type, b: ast::Type, n: int, m: int)
    requires n == m, a.generic_types@.len() == b.generic_types@.len(), forall |j: int| 0 <= j < n ==> a.generic_types@[j] == b.generic_types@[j]
    ensures kpre_kids(a, n) == kpre_kids(b, m)
    decreases n
{ if 0 < n <= a.generic_types@.len() { lemma_kpre_kids_frame(a, b, n - 1, n - 1); } }
proof fn lemma_kpre_args_frame(a: Seq<ast::Arg>, b: Seq<ast::Arg>, n: int, m: int)
    requires n == m, forall |j: int| 0 <= j < n ==> a[j] == b[j]
    ensures kpre_args(a, n) == kpre_args(b, m)
    decreases n
{ if 0 < n { lemma_kpre_args_frame(a, b, n - 1, n - 1); } }
proof fn lemma_kpre_iface_frame(a: Seq<ast::InterfaceElement>, b: Seq<ast::InterfaceElement>, n: int, m: int)
    requires n == m, forall |j: int| 0 <= j < n ==> a[j] == b[j]
    ensures kpre_iface(a, n) == kpre_iface(b, m)
    decreases n
{ if 0 < n { lemma_kpre_iface_frame(a, b, n - 1, n - 1); } }
proof fn lemma_kpre_parc_frame(a: Seq<ast::ParcelableElement>, b: Seq<ast::ParcelableElement>, n: int, m: int)
    requires n == m, forall |j: int| 0 <= j < n ==> a[j] == b[j]
    ensures kpre_parc(a, n) == kpre_parc(b, m)
    decreases n
{ if 0 < n { lemma_kpre_parc_frame(a, b, n - 1, n - 1); } }

// ---- what the mutable type walker does to a tree: every type node is replaced as the callback's step allows, its
// children likewise; nothing else changes. `step` relates a node as offered to the node as the callback leaves it
// (the callback keeps the children, so the node as left is the final node with the offered children put back). ----
spec fn type_rel(step: spec_fn(ast::Type, ast::Type) -> bool, o: ast::Type, n: ast::Type) -> bool
    decreases o
{
    step(o, ast::Type { generic_types: o.generic_types, ..n }) && n.generic_types@.len() == o.generic_types@.len()
    && forall |i: int| 0 <= i < o.generic_types@.len() ==> type_rel(step, #[trigger] o.generic_types@[i], n.generic_types@[i])
}
spec fn arg_rel(step: spec_fn(ast::Type, ast::Type) -> bool, o: ast::Arg, n: ast::Arg) -> bool {
    n == (ast::Arg { arg_type: n.arg_type, ..o }) && type_rel(step, o.arg_type, n.arg_type)
}
spec fn method_rel(step: spec_fn(ast::Type, ast::Type) -> bool, o: ast::Method, n: ast::Method) -> bool {
    &&& n == (ast::Method { return_type: n.return_type, args: n.args, ..o })
    &&& type_rel(step, o.return_type, n.return_type)
    &&& n.args@.len() == o.args@.len()
    &&& forall |j: int| 0 <= j < o.args@.len() ==> arg_rel(step, #[trigger] o.args@[j], n.args@[j])
}
spec fn const_rel(step: spec_fn(ast::Type, ast::Type) -> bool, o: ast::Const, n: ast::Const) -> bool {
    n == (ast::Const { const_type: n.const_type, ..o }) && type_rel(step, o.const_type, n.const_type)
}
spec fn field_rel(step: spec_fn(ast::Type, ast::Type) -> bool, o: ast::Field, n: ast::Field) -> bool {
    n == (ast::Field { field_type: n.field_type, ..o }) && type_rel(step, o.field_type, n.field_type)
}
spec fn iface_el_rel(step: spec_fn(ast::Type, ast::Type) -> bool, o: ast::InterfaceElement, n: ast::InterfaceElement) -> bool {
    match (o, n) {
        (ast::InterfaceElement::Method(a), ast::InterfaceElement::Method(b)) => method_rel(step, a, b),
        (ast::InterfaceElement::Const(a), ast::InterfaceElement::Const(b)) => const_rel(step, a, b),
        _ => false,
    }
}
spec fn parc_el_rel(step: spec_fn(ast::Type, ast::Type) -> bool, o: ast::ParcelableElement, n: ast::ParcelableElement) -> bool {
    match (o, n) {
        (ast::ParcelableElement::Field(a), ast::ParcelableElement::Field(b)) => field_rel(step, a, b),
        (ast::ParcelableElement::Const(a), ast::ParcelableElement::Const(b)) => const_rel(step, a, b),
        _ => false,
    }
}
spec fn item_rel(step: spec_fn(ast::Type, ast::Type) -> bool, o: ast::Item, n: ast::Item) -> bool {
    match (o, n) {
        (ast::Item::Interface(a), ast::Item::Interface(b)) =>
            b == (ast::Interface { elements: b.elements, ..a }) && b.elements@.len() == a.elements@.len()
            && forall |k: int| 0 <= k < a.elements@.len() ==> iface_el_rel(step, #[trigger] a.elements@[k], b.elements@[k]),
        (ast::Item::Parcelable(a), ast::Item::Parcelable(b)) =>
            b == (ast::Parcelable { elements: b.elements, ..a }) && b.elements@.len() == a.elements@.len()
            && forall |k: int| 0 <= k < a.elements@.len() ==> parc_el_rel(step, #[trigger] a.elements@[k], b.elements@[k]),
        (ast::Item::Enum(a), ast::Item::Enum(b)) => a == b,
        _ => false,
    }
}
spec fn aidl_rel(step: spec_fn(ast::Type, ast::Type) -> bool, o: ast::Aidl, n: ast::Aidl) -> bool {
    n == (ast::Aidl { item: n.item, ..o }) && item_rel(step, o.item, n.item)
}
