// ---------- traversal order (C15 / C16; walker contracts of C05, C06, C08, C09), from the C15 statement ----------
// every type at any nesting depth, in source order, an array's element type before the array
spec fn flat(t: ast::Type) -> Seq<ast::Type>
    decreases t, t.generic_types@.len() + 1
{
    if t.kind is Array { flat_kids(t, t.generic_types@.len() as int) + seq![t] }
    else { seq![t] + flat_kids(t, t.generic_types@.len() as int) }
}
spec fn flat_kids(t: ast::Type, n: int) -> Seq<ast::Type>
    decreases t, n
{
    if n <= 0 || n > t.generic_types@.len() { Seq::<ast::Type>::empty() }
    else { flat_kids(t, n - 1) + flat(t.generic_types@[n - 1]) }
}

// the types of one member, in source order
spec fn arg_types(args: Seq<ast::Arg>, n: int) -> Seq<ast::Type>
    decreases n
{
    if n <= 0 { Seq::<ast::Type>::empty() } else { arg_types(args, n - 1) + flat(args[n - 1].arg_type) }
}
spec fn iface_el_types(el: ast::InterfaceElement) -> Seq<ast::Type> {
    match el {
        ast::InterfaceElement::Method(m) => flat(m.return_type) + arg_types(m.args@, m.args@.len() as int),
        ast::InterfaceElement::Const(c) => flat(c.const_type),
    }
}
spec fn parc_el_types(el: ast::ParcelableElement) -> Seq<ast::Type> {
    match el {
        ast::ParcelableElement::Field(f) => flat(f.field_type),
        ast::ParcelableElement::Const(c) => flat(c.const_type),
    }
}
spec fn iface_types(els: Seq<ast::InterfaceElement>, n: int) -> Seq<ast::Type>
    decreases n
{
    if n <= 0 { Seq::<ast::Type>::empty() } else { iface_types(els, n - 1) + iface_el_types(els[n - 1]) }
}
spec fn parc_types(els: Seq<ast::ParcelableElement>, n: int) -> Seq<ast::Type>
    decreases n
{
    if n <= 0 { Seq::<ast::Type>::empty() } else { parc_types(els, n - 1) + parc_el_types(els[n - 1]) }
}
// all types of a file (walk_types / walk_types_mut contract)
spec fn types_of(a: ast::Aidl) -> Seq<ast::Type> {
    match a.item {
        ast::Item::Interface(i) => iface_types(i.elements@, i.elements@.len() as int),
        ast::Item::Parcelable(p) => parc_types(p.elements@, p.elements@.len() as int),
        ast::Item::Enum(_) => Seq::<ast::Type>::empty(),
    }
}

// all methods of a file, constants excluded (walk_methods contract)
spec fn methods_upto(els: Seq<ast::InterfaceElement>, n: int) -> Seq<ast::Method>
    decreases n
{
    if n <= 0 { Seq::<ast::Method>::empty() }
    else {
        match els[n - 1] {
            ast::InterfaceElement::Method(m) => methods_upto(els, n - 1).push(m),
            ast::InterfaceElement::Const(_) => methods_upto(els, n - 1),
        }
    }
}
spec fn methods_of(a: ast::Aidl) -> Seq<ast::Method> {
    match a.item {
        ast::Item::Interface(i) => methods_upto(i.elements@, i.elements@.len() as int),
        _ => Seq::<ast::Method>::empty(),
    }
}

// all (method, argument) pairs of a file in source order (walk_args contract)
spec fn args_upto(m: ast::Method, n: int) -> Seq<(ast::Method, ast::Arg)>
    decreases n
{
    if n <= 0 { Seq::<(ast::Method, ast::Arg)>::empty() } else { args_upto(m, n - 1).push((m, m.args@[n - 1])) }
}
spec fn el_args(el: ast::InterfaceElement) -> Seq<(ast::Method, ast::Arg)> {
    match el {
        ast::InterfaceElement::Method(m) => args_upto(m, m.args@.len() as int),
        ast::InterfaceElement::Const(_) => Seq::<(ast::Method, ast::Arg)>::empty(),
    }
}
spec fn iface_args(els: Seq<ast::InterfaceElement>, n: int) -> Seq<(ast::Method, ast::Arg)>
    decreases n
{
    if n <= 0 { Seq::<(ast::Method, ast::Arg)>::empty() } else { iface_args(els, n - 1) + el_args(els[n - 1]) }
}
spec fn args_of(a: ast::Aidl) -> Seq<(ast::Method, ast::Arg)> {
    match a.item {
        ast::Item::Interface(i) => iface_args(i.elements@, i.elements@.len() as int),
        _ => Seq::<(ast::Method, ast::Arg)>::empty(),
    }
}

// ---- the mutable type walker offers the nodes parent first (no array exception), as they are when offered ----
spec fn pre(t: ast::Type) -> Seq<ast::Type>
    decreases t, t.generic_types@.len() + 1
{ seq![t] + pre_kids(t, t.generic_types@.len() as int) }
spec fn pre_kids(t: ast::Type, n: int) -> Seq<ast::Type>
    decreases t, n
{ if n <= 0 || n > t.generic_types@.len() { Seq::<ast::Type>::empty() } else { pre_kids(t, n - 1) + pre(t.generic_types@[n - 1]) } }
spec fn pre_args(args: Seq<ast::Arg>, n: int) -> Seq<ast::Type>
    decreases n
{ if n <= 0 { Seq::<ast::Type>::empty() } else { pre_args(args, n - 1) + pre(args[n - 1].arg_type) } }
spec fn pre_iface_el(el: ast::InterfaceElement) -> Seq<ast::Type> {
    match el {
        ast::InterfaceElement::Method(m) => pre(m.return_type) + pre_args(m.args@, m.args@.len() as int),
        ast::InterfaceElement::Const(c) => pre(c.const_type),
    }
}
spec fn pre_parc_el(el: ast::ParcelableElement) -> Seq<ast::Type> {
    match el { ast::ParcelableElement::Field(f) => pre(f.field_type), ast::ParcelableElement::Const(c) => pre(c.const_type) }
}
spec fn pre_iface(els: Seq<ast::InterfaceElement>, n: int) -> Seq<ast::Type>
    decreases n
{ if n <= 0 { Seq::<ast::Type>::empty() } else { pre_iface(els, n - 1) + pre_iface_el(els[n - 1]) } }
spec fn pre_parc(els: Seq<ast::ParcelableElement>, n: int) -> Seq<ast::Type>
    decreases n
{ if n <= 0 { Seq::<ast::Type>::empty() } else { pre_parc(els, n - 1) + pre_parc_el(els[n - 1]) } }
spec fn types_pre_of(a: ast::Aidl) -> Seq<ast::Type> {
    match a.item {
        ast::Item::Interface(i) => pre_iface(i.elements@, i.elements@.len() as int),
        ast::Item::Parcelable(p) => pre_parc(p.elements@, p.elements@.len() as int),
        ast::Item::Enum(_) => Seq::<ast::Type>::empty(),
    }
}
