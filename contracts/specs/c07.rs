// ---------- spec of C07 / C10(return rule), written from the property statements ----------
pub enum Req { DirectionRequired, InOrNone, InOrInOut, Never, Nothing }

// category -> requirement (C07). `void` is not named by the statement; it lexes like a
// primitive keyword and follows the primitive row.
spec fn req_of(k: TypeKind) -> Req {
    match k {
        TypeKind::Array | TypeKind::List | TypeKind::Map => Req::DirectionRequired,
        TypeKind::ResolvedItem(_, ResolvedItemKind::Parcelable) => Req::DirectionRequired,
        TypeKind::ResolvedItem(_, ResolvedItemKind::ForwardDeclaredParcelable) => Req::DirectionRequired,
        TypeKind::Primitive | TypeKind::Void | TypeKind::String | TypeKind::CharSequence => Req::InOrNone,
        TypeKind::ResolvedItem(_, ResolvedItemKind::Interface) => Req::InOrNone,
        TypeKind::ResolvedItem(_, ResolvedItemKind::Enum) => Req::InOrNone,
        TypeKind::ResolvedItem(_, ResolvedItemKind::UnknownImport) => Req::InOrNone,
        TypeKind::AndroidType(AndroidTypeKind::IBinder) => Req::InOrNone,
        TypeKind::AndroidType(AndroidTypeKind::FileDescriptor) => Req::InOrNone,
        TypeKind::AndroidType(AndroidTypeKind::ParcelFileDescriptor) => Req::InOrInOut,
        TypeKind::AndroidType(AndroidTypeKind::ParcelableHolder) => Req::Never,
        TypeKind::Unresolved => Req::Nothing,
    }
}

spec fn req_view(r: RequirementForArgDirection) -> Req {
    match r {
        RequirementForArgDirection::DirectionRequired(_) => Req::DirectionRequired,
        RequirementForArgDirection::CanOnlyBeInOrUnspecified(_) => Req::InOrNone,
        RequirementForArgDirection::CanOnlyBeInOrInOut(_) => Req::InOrInOut,
        RequirementForArgDirection::CannotBeAnArg(_) => Req::Never,
        RequirementForArgDirection::NoRequirement => Req::Nothing,
    }
}

// the range a direction diagnostic sits on: the keyword, or the empty range at the type's start
spec fn dir_range(a: ast::Arg) -> ast::Range {
    match a.direction {
        ast::Direction::In(r) => r,
        ast::Direction::Out(r) => r,
        ast::Direction::InOut(r) => r,
        ast::Direction::Unspecified => ast::Range { start: a.arg_type.symbol_range.start, end: a.arg_type.symbol_range.start },
    }
}

spec fn type_rule_broken(req: Req, d: ast::Direction) -> bool {
    match req {
        Req::DirectionRequired => d is Unspecified,
        Req::InOrNone => !(d is Unspecified || d is In),
        Req::InOrInOut => !(d is In || d is InOut),
        Req::Never => true,
        Req::Nothing => false,
    }
}

spec fn oneway_rule_broken(oneway: bool, d: ast::Direction) -> bool {
    oneway && (d is Out || d is InOut)
}

// expected diagnostics of one argument: type rule first, then the oneway rule
spec fn arg_expect(oneway: bool, a: ast::Arg) -> Seq<DP> {
    let r = dir_range(a);
    let s1 = if type_rule_broken(req_of(a.arg_type.kind), a.direction) { seq![err(r)] } else { Seq::<DP>::empty() };
    let s2 = if oneway_rule_broken(oneway, a.direction) { seq![err(r)] } else { Seq::<DP>::empty() };
    s1 + s2
}

spec fn args_expect(oneway: bool, args: Seq<ast::Arg>, n: int) -> Seq<DP>
    decreases n
{
    if n <= 0 { Seq::<DP>::empty() } else { args_expect(oneway, args, n - 1) + arg_expect(oneway, args[n - 1]) }
}

// C10: return-type rule
spec fn ret_expect(m: ast::Method) -> Seq<DP> {
    if m.oneway && !(m.return_type.kind is Void) { seq![err(m.return_type.symbol_range)] } else { Seq::<DP>::empty() }
}

spec fn method_expect(m: ast::Method) -> Seq<DP> {
    ret_expect(m) + args_expect(m.oneway, m.args@, m.args@.len() as int)
}
