// ---------- spec of C09 (duplicate names / ids / mixed), written from the property statement ----------
// ms is the method sequence of the interface (constants never take part)

// first index j < upto with the same name as ms[i], or -1
spec fn first_same_name(ms: Seq<ast::Method>, i: int, upto: int) -> int
    decreases upto
{
    if upto <= 0 { -1 }
    else {
        let r = first_same_name(ms, i, upto - 1);
        if r >= 0 { r } else if ms[upto - 1].name@ == ms[i].name@ { upto - 1 } else { -1 }
    }
}
spec fn dup_name(ms: Seq<ast::Method>, i: int) -> bool { first_same_name(ms, i, i) >= 0 }

// first method j < upto with a distinct (non-repeating) name whose with-code-ness is `want_code`, or -1
spec fn first_kind(ms: Seq<ast::Method>, want_code: bool, upto: int) -> int
    decreases upto
{
    if upto <= 0 { -1 }
    else {
        let r = first_kind(ms, want_code, upto - 1);
        if r >= 0 { r } else if !dup_name(ms, upto - 1) && (ms[upto - 1].transact_code is Some) == want_code { upto - 1 } else { -1 }
    }
}
// first method j < upto with a distinct name carrying code c, or -1
spec fn first_code(ms: Seq<ast::Method>, c: u32, upto: int) -> int
    decreases upto
{
    if upto <= 0 { -1 }
    else {
        let r = first_code(ms, c, upto - 1);
        if r >= 0 { r } else if !dup_name(ms, upto - 1) && ms[upto - 1].transact_code == Some(c) { upto - 1 } else { -1 }
    }
}

// what method i contributes (after its own return-type / argument diagnostics)
spec fn step_expect(ms: Seq<ast::Method>, i: int) -> Seq<EX> {
    let m = ms[i];
    if dup_name(ms, i) {
        // repeated name: one Error on the name, pointing back to the first occurrence; takes no further part
        seq![EX::Rel(err(m.symbol_range), ms[first_same_name(ms, i, i)].symbol_range)]
    } else {
        let wc = m.transact_code is Some;
        let other = first_kind(ms, !wc, i);
        let same = first_kind(ms, wc, i);
        // exactly one 'mixed' Error, at the first method that makes the interface mixed
        let mixed = if other >= 0 && same < 0 { seq![EX::Rel(err(m.transact_code_range), ms[other].transact_code_range)] } else { Seq::<EX>::empty() };
        // a code that repeats an earlier one: one Error pointing back to the earlier method
        let dupid = if wc && first_code(ms, m.transact_code->0, i) >= 0 {
            seq![EX::Rel(err(m.transact_code_range), ms[first_code(ms, m.transact_code->0, i)].transact_code_range)]
        } else { Seq::<EX>::empty() };
        mixed + dupid
    }
}

spec fn method_full_expect(ms: Seq<ast::Method>, i: int) -> Seq<EX> { plain(method_expect(ms[i])) + step_expect(ms, i) }

spec fn methods_expect(ms: Seq<ast::Method>, n: int) -> Seq<EX>
    decreases n
{
    if n <= 0 { Seq::<EX>::empty() } else { methods_expect(ms, n - 1) + method_full_expect(ms, n - 1) }
}

proof fn lemma_first_same_name(ms: Seq<ast::Method>, i: int, upto: int)
    requires 0 <= upto <= i < ms.len()
    ensures
        ({ let f = first_same_name(ms, i, upto);
           &&& -1 <= f < upto
           &&& (f >= 0 ==> ms[f].name@ == ms[i].name@ && forall |j: int| 0 <= j < f ==> ms[j].name@ != ms[i].name@)
           &&& (f < 0 ==> forall |j: int| 0 <= j < upto ==> ms[j].name@ != ms[i].name@) })
    decreases upto
{
    if upto > 0 { lemma_first_same_name(ms, i, upto - 1); }
}

// the first method with a given name is itself not a duplicate
proof fn lemma_first_is_nondup(ms: Seq<ast::Method>, i: int)
    requires 0 <= i < ms.len(), dup_name(ms, i)
    ensures ({ let f = first_same_name(ms, i, i); 0 <= f < i && !dup_name(ms, f) && ms[f].name@ == ms[i].name@ })
{
    lemma_first_same_name(ms, i, i);
    let f = first_same_name(ms, i, i);
    lemma_first_same_name(ms, f, f);
}

proof fn lemma_first_kind(ms: Seq<ast::Method>, w: bool, upto: int)
    requires 0 <= upto <= ms.len()
    ensures
        ({ let f = first_kind(ms, w, upto);
           &&& -1 <= f < upto
           &&& (f >= 0 ==> !dup_name(ms, f) && (ms[f].transact_code is Some) == w)
           &&& (f < 0 ==> forall |j: int| 0 <= j < upto ==> dup_name(ms, j) || (ms[j].transact_code is Some) != w) })
    decreases upto
{
    if upto > 0 { lemma_first_kind(ms, w, upto - 1); }
}

spec fn first_code_ok(ms: Seq<ast::Method>, c: u32, upto: int) -> bool {
    let f = first_code(ms, c, upto);
    &&& -1 <= f < upto
    &&& (f >= 0 ==> !dup_name(ms, f) && ms[f].transact_code == Some(c))
    &&& (f < 0 ==> forall |j: int| 0 <= j < upto ==> dup_name(ms, j) || ms[j].transact_code != Some(c))
}
proof fn lemma_first_code(ms: Seq<ast::Method>, c: u32, upto: int)
    requires 0 <= upto <= ms.len()
    ensures first_code_ok(ms, c, upto)
    decreases upto
{
    if upto > 0 { lemma_first_code(ms, c, upto - 1); }
}

// state abstraction after processing ms[0..n]
spec fn state_ok(ms: Seq<ast::Method>, n: int,
    names: Map<String, &ast::Method>, ids: Map<u32, &ast::Method>,
    fwo: Option<&ast::Method>, fw: Option<&ast::Method>) -> bool
{
    &&& names.dom().finite() && ids.dom().finite()
    &&& forall |s: String| #[trigger] names.contains_key(s) <==> exists |j: int| 0 <= j < n && #[trigger] ms[j].name@ == s@
    &&& forall |j: int| 0 <= j < n && !dup_name(ms, j) ==> #[trigger] names[ms[j].name] == &ms[j]
    &&& forall |c: u32| #[trigger] ids.contains_key(c) <==> first_code(ms, c, n) >= 0
    &&& forall |c: u32| ids.contains_key(c) ==> #[trigger] ids[c] == &ms[first_code(ms, c, n)]
    &&& (fw is Some <==> first_kind(ms, true, n) >= 0)
    &&& (fw is Some ==> fw->0 == &ms[first_kind(ms, true, n)])
    &&& (fwo is Some <==> first_kind(ms, false, n) >= 0)
    &&& (fwo is Some ==> fwo->0 == &ms[first_kind(ms, false, n)])
}

proof fn lemma_ids_nonempty_iff_with(ms: Seq<ast::Method>, n: int, ids: Map<u32, &ast::Method>)
    requires 0 <= n <= ms.len(), ids.dom().finite(),
        forall |c: u32| #[trigger] ids.contains_key(c) <==> first_code(ms, c, n) >= 0
    ensures (ids.len() != 0) <==> first_kind(ms, true, n) >= 0
{
    lemma_first_kind(ms, true, n);
    if ids.len() != 0 {
        let c = choose |c: u32| ids.contains_key(c);
        if !ids.contains_key(c) { assert(ids.dom() =~= Set::<u32>::empty()); }
        lemma_first_code(ms, c, n);
    }
    if first_kind(ms, true, n) >= 0 {
        let f = first_kind(ms, true, n);
        let c = ms[f].transact_code->0;
        lemma_first_code(ms, c, n);
        assert(ids.contains_key(c));
    }
}

// corollaries named by the statement
// unique names and no codes at all: none of the three diagnostics
proof fn lemma_clean_interface_no_codes(ms: Seq<ast::Method>, i: int)
    requires 0 <= i < ms.len(),
        forall |a: int, b: int| 0 <= a < b < ms.len() ==> ms[a].name@ != ms[b].name@,
        forall |a: int| 0 <= a < ms.len() ==> ms[a].transact_code is None,
    ensures step_expect(ms, i) =~= Seq::<EX>::empty()
{
    lemma_first_same_name(ms, i, i);
    lemma_first_kind(ms, true, i);
}
// unique names and unique codes on every method: none either
proof fn lemma_clean_interface_all_codes(ms: Seq<ast::Method>, i: int)
    requires 0 <= i < ms.len(),
        forall |a: int, b: int| 0 <= a < b < ms.len() ==> ms[a].name@ != ms[b].name@,
        forall |a: int| 0 <= a < ms.len() ==> ms[a].transact_code is Some,
        forall |a: int, b: int| 0 <= a < b < ms.len() ==> ms[a].transact_code != ms[b].transact_code,
    ensures step_expect(ms, i) =~= Seq::<EX>::empty()
{
    lemma_first_same_name(ms, i, i);
    lemma_first_kind(ms, false, i);
    lemma_first_code(ms, ms[i].transact_code->0, i);
}
