// ---------- validate: what the per-file step guarantees (C01e, C03, C11, C13) ----------
// what the parser stores: trees whose types respect the grammar's arities
spec fn result_wf<ID>(fr: ParseFileResult<ID>) -> bool {
    fr.ast is Some ==> all_arity_ok(types_of(fr.ast->0))
}

spec fn start_key(d: Diagnostic) -> (usize, usize) { d.range.start.line_col }
// ascending start positions (line, then column)
spec fn sorted_by_start(ds: Seq<Diagnostic>) -> bool {
    forall |i: int, j: int| 0 <= i < j < ds.len() ==> key_le(start_key(#[trigger] ds[i]), start_key(#[trigger] ds[j]))
}

// the result for one file is constrained by (id, stored result, key -> kind map) only
spec fn file_post<ID>(id: ID, fr: ParseFileResult<ID>, defined: Map<String, ResolvedItemKind>, out_id: ID, out: ParseFileResult<ID>) -> bool {
    // C01: keyed and tagged by the caller's id
    &&& out_id == id && out.id == fr.id
    // no tree: handed back untouched (C03: a result without a tree keeps its Errors)
    &&& (fr.ast is None ==> out.ast is None && out.diagnostics == fr.diagnostics)
    &&& (fr.ast is Some ==> out.ast is Some)
    // C03: validation never drops a stored diagnostic (the final list is a permutation of stored ++ appended)
    // C11: ... which keeps the generation order of diagnostics that start at the same position (stable)
    &&& (fr.ast is Some ==> exists |pre: Seq<Diagnostic>| #[trigger] pre.to_multiset() == out.diagnostics@.to_multiset() && prefix_kept(fr.diagnostics@, pre)
            && stable_sorted(pre, out.diagnostics@, |d: Diagnostic| start_key(d)))
    // C11: ascending order of start position
    &&& (fr.ast is Some ==> sorted_by_start(out.diagnostics@))
    // pipeline order (C07, C10): the method diagnostics are computed last, on the tree that is returned
    // (after resolution and after oneway propagation) - nothing changes the tree or appends afterwards
    &&& (fr.ast is Some ==> exists |d1: Seq<Diagnostic>, pre: Seq<Diagnostic>, a: ast::Aidl|
            #[trigger] appended_ex(d1, pre, methods_expect(methods_of(a), methods_of(a).len() as int))
            && out.ast == Some(a) && prefix_kept(fr.diagnostics@, d1) && pre.to_multiset() == out.diagnostics@.to_multiset())
    // pipeline order (C08): the container diagnostics are computed on the kinds of the returned tree (after resolution)
    &&& (fr.ast is Some ==> exists |d2: Seq<Diagnostic>, d3: Seq<Diagnostic>, ts: Seq<ast::Type>|
            #[trigger] appended(d2, d3, containers_expect(ts, ts.len() as int))
            && ts == types_of(out.ast->0) && prefix_kept(fr.diagnostics@, d2))
}
