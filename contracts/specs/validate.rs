// ---------- validate: what the per-file step guarantees (C01e, C03, C11, C13) ----------
// what the parser stores: trees whose types respect the grammar's arities
spec fn result_wf<ID>(fr: ParseFileResult<ID>) -> bool {
    fr.ast is Some ==> all_arity_ok(types_of(fr.ast->0))
}

spec fn start_key(d: Diagnostic) -> (usize, usize) { d.range.start.line_col }
// ascending start positions (line, then column)
spec fn sorted_by_start(ds: Seq<Diagnostic>) -> bool {
    forall |i: int, j: int| 0 <= i < j < ds.len() ==> key_le(start_key(#[trigger] ds[i]), start_key(#[trigger] ds[j]))
}

// the qualified names of a file's own import / forward-declaration statements (what the resolver is handed)
spec fn qnames(imps: Seq<ast::Import>, n: int) -> Set<String>
    decreases n
{ if n <= 0 { Set::<String>::empty() } else { qnames(imps, n - 1).insert(string_of(import_qname(imps[n - 1]))) } }
// oneway propagation: the only thing that happens to the tree after resolution
spec fn tree_propagated(a1: ast::Aidl, a2: ast::Aidl) -> bool {
    a2 == (ast::Aidl { item: a2.item, ..a1 }) && match (a1.item, a2.item) {
        (ast::Item::Interface(i1), ast::Item::Interface(i2)) => oneway_propagated(i1, i2),
        _ => a2.item == a1.item,
    }
}

// pipeline (C05): the returned tree is the stored tree with every type node, at every depth, resolved as the per-node
// rules allow against the file's own import / forward-declaration names and the key -> kind map (then
// oneway-propagated), and the 'unknown type' Errors - one per unknown name - are appended first
spec fn post_resolved<ID>(fr: ParseFileResult<ID>, defined: Map<String, ResolvedItemKind>, out: ParseFileResult<ID>) -> bool {
    exists |a1: ast::Aidl, d1: Seq<Diagnostic>, pre: Seq<Diagnostic>, ins: Set<String>, dns: Set<String>|
            ins == qnames(fr.ast->0.imports@, fr.ast->0.imports@.len() as int)
            && dns == qnames(fr.ast->0.declared_parcelables@, fr.ast->0.declared_parcelables@.len() as int)
            && #[trigger] aidl_rel(resolve_rel(ins, dns, defined), fr.ast->0, a1) && tree_propagated(a1, out.ast->0)
            && #[trigger] appended(fr.diagnostics@, d1, unknown_errs(types_pre_of(fr.ast->0), types_pre_of(fr.ast->0).len() as int, ins, dns, defined))
            && prefix_kept(d1, pre) && #[trigger] pre.to_multiset() == out.diagnostics@.to_multiset()
}
// pipeline (C06): the import and forward-declaration diagnostics are computed against a set that holds exactly the
// keys of the kinds of the returned tree's type nodes (at every depth)
spec fn post_imports<'a, ID>(fr: ParseFileResult<ID>, defined: Map<String, ResolvedItemKind>, out: ParseFileResult<ID>) -> bool {
    exists |res: Set<String>, d4: Seq<Diagnostic>, d5: Seq<Diagnostic>, d6: Seq<Diagnostic>, imap: Map<String, &'a ast::Import>, pre: Seq<Diagnostic>,
                                   is: Seq<ast::Import>, ds: Seq<ast::Import>|
            is == out.ast->0.imports@ && ds == out.ast->0.declared_parcelables@
            && #[trigger] imports_post(is, res, defined, d4, d5, imap)
            && import_map_ok(is, is.len() as int, imap)
            && #[trigger] decls_post(ds, imap, res, d5, d6)
            && coupled(kinds_pre_of(out.ast->0), res) && prefix_kept(fr.diagnostics@, d4)
            && prefix_kept(d6, pre) && #[trigger] pre.to_multiset() == out.diagnostics@.to_multiset()
}

// the result for one file is constrained by (id, stored result, key -> kind map) only
spec fn file_post<'a, ID>(id: ID, fr: ParseFileResult<ID>, defined: Map<String, ResolvedItemKind>, out_id: ID, out: ParseFileResult<ID>) -> bool {
    // C01: keyed and tagged by the caller's id
    &&& out_id == id && out.id == fr.id
    // no tree: handed back untouched (C03: a result without a tree keeps its Errors)
    &&& (fr.ast is None ==> out.ast is None && out.diagnostics == fr.diagnostics)
    &&& (fr.ast is Some ==> out.ast is Some)
    // C03: validation never drops a stored diagnostic (the final list is a permutation of stored ++ appended)
    // C11: ... which keeps the generation order of diagnostics that start at the same position (stable)
    &&& (fr.ast is Some ==> exists |pre: Seq<Diagnostic>| #[trigger] pre.to_multiset() == out.diagnostics@.to_multiset() && prefix_kept(fr.diagnostics@, pre)
            && stable_sorted(pre, out.diagnostics@, |d: Diagnostic| start_key(d)))
    // C11: ascending order of start position
    &&& (fr.ast is Some ==> sorted_by_start(out.diagnostics@))
    // pipeline order (C07, C10): the method diagnostics are computed last, on the tree that is returned
    // (after resolution and after oneway propagation) - nothing changes the tree or appends afterwards
    &&& (fr.ast is Some ==> exists |d1: Seq<Diagnostic>, pre: Seq<Diagnostic>, a: ast::Aidl|
            #[trigger] appended_ex(d1, pre, methods_expect(methods_of(a), methods_of(a).len() as int))
            && out.ast == Some(a) && prefix_kept(fr.diagnostics@, d1) && pre.to_multiset() == out.diagnostics@.to_multiset())
    // pipeline order (C08): the container diagnostics are computed on the kinds of the returned tree (after resolution)
    &&& (fr.ast is Some ==> exists |d2: Seq<Diagnostic>, d3: Seq<Diagnostic>, ts: Seq<ast::Type>|
            #[trigger] appended(d2, d3, containers_expect(ts, ts.len() as int))
            && ts == types_of(out.ast->0) && prefix_kept(fr.diagnostics@, d2))
    // pipeline (C05) and (C06): see post_resolved / post_imports
    &&& (fr.ast is Some ==> post_resolved(fr, defined, out))
    &&& (fr.ast is Some ==> post_imports(fr, defined, out))
}
