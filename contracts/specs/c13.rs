// ---------- C13: a file's result depends on the key -> kind map only at the keys the file imports ----------
// two maps agree on a set of keys: same membership, same kind
spec fn agree_on(d1: Map<String, ResolvedItemKind>, d2: Map<String, ResolvedItemKind>, ks: Set<String>) -> bool {
    forall |p: String| #[trigger] ks.contains(p) ==> (d1.contains_key(p) == d2.contains_key(p) && (d1.contains_key(p) ==> d1[p] == d2[p]))
}
proof fn lemma_allowed_agree(k: TypeKind, name: Seq<char>, ins: Set<String>, dns: Set<String>, d1: Map<String, ResolvedItemKind>, d2: Map<String, ResolvedItemKind>)
    requires agree_on(d1, d2, ins)
    ensures allowed(k, name, ins, dns, d1) == allowed(k, name, ins, dns, d2)
{
    match k {
        TypeKind::ResolvedItem(p, rk) => { if ins.contains(p) { assert(lookup_kind(d1, p) == lookup_kind(d2, p)); } }
        _ => {}
    }
}
proof fn lemma_resolve_rel_agree(ins: Set<String>, dns: Set<String>, d1: Map<String, ResolvedItemKind>, d2: Map<String, ResolvedItemKind>)
    requires agree_on(d1, d2, ins)
    ensures resolve_rel(ins, dns, d1) == resolve_rel(ins, dns, d2)
{
    assert forall |o: ast::Type, n: ast::Type| resolve_step(o, n, ins, dns, d1) == resolve_step(o, n, ins, dns, d2) by {
        lemma_allowed_agree(n.kind, o.name@, ins, dns, d1, d2);
    }
    assert(resolve_rel(ins, dns, d1) =~= resolve_rel(ins, dns, d2));
}
proof fn lemma_unknown_errs_agree(ts: Seq<ast::Type>, n: int, ins: Set<String>, dns: Set<String>, d1: Map<String, ResolvedItemKind>, d2: Map<String, ResolvedItemKind>)
    requires agree_on(d1, d2, ins)
    ensures unknown_errs(ts, n, ins, dns, d1) == unknown_errs(ts, n, ins, dns, d2)
    decreases n
{
    if n > 0 {
        lemma_unknown_errs_agree(ts, n - 1, ins, dns, d1, d2);
        lemma_allowed_agree(TypeKind::Unresolved, ts[n - 1].name@, ins, dns, d1, d2);
    }
}
proof fn lemma_imports_classified_agree<'a>(ks: Seq<(&'a String, &&'a ast::Import)>, n: int, res: Set<String>, ins: Set<String>, d1: Map<String, ResolvedItemKind>, d2: Map<String, ResolvedItemKind>)
    requires agree_on(d1, d2, ins), 0 <= n <= ks.len(), forall |j: int| 0 <= j < ks.len() ==> ins.contains(*(#[trigger] ks[j]).0)
    ensures imports_classified(ks, n, res, d1) == imports_classified(ks, n, res, d2)
    decreases n
{
    if n > 0 {
        lemma_imports_classified_agree(ks, n - 1, res, ins, d1, d2);
        assert(ins.contains(*ks[n - 1].0));
    }
}
// the names of the first n statements, as a set: membership
proof fn lemma_qnames_contains(imps: Seq<ast::Import>, n: int, j: int)
    requires 0 <= j < n <= imps.len()
    ensures qnames(imps, n).contains(string_of(import_qname(imps[j])))
    decreases n
{
    if j < n - 1 { lemma_qnames_contains(imps, n - 1, j); }
}
// imports_post only looks at the map through the names of the import statements
proof fn lemma_imports_post_agree<'a>(is: Seq<ast::Import>, res: Set<String>, d1: Map<String, ResolvedItemKind>, d2: Map<String, ResolvedItemKind>,
                                      od: Seq<Diagnostic>, nd: Seq<Diagnostic>, m: Map<String, &'a ast::Import>)
    requires agree_on(d1, d2, qnames(is, is.len() as int)), import_map_ok(is, is.len() as int, m), imports_post(is, res, d1, od, nd, m)
    ensures imports_post(is, res, d2, od, nd, m)
{
    broadcast use axiom_string_ext;
    broadcast use axiom_string_of;
    let ks = choose |ks: Seq<(&'a String, &&'a ast::Import)>| enumerates(ks, m)
        && appended_ex(od, nd, dups_expect(is, is.len() as int) + #[trigger] imports_classified(ks, ks.len() as int, res, d1));
    let ins = qnames(is, is.len() as int);
    assert forall |j: int| 0 <= j < ks.len() implies ins.contains(*(#[trigger] ks[j]).0) by {
        let s = *ks[j].0;
        assert(m.contains_key(s));
        let q = choose |q: int| 0 <= q < is.len() && import_qname(#[trigger] is[q]) == s@;
        lemma_qnames_contains(is, is.len() as int, q);
        assert(string_of(import_qname(is[q])) == s);
    }
    lemma_imports_classified_agree(ks, ks.len() as int, res, ins, d1, d2);
}

// the C05 part of a file's postcondition does not look at the map outside the file's import names
proof fn lemma_post_resolved_agree<ID>(fr: ParseFileResult<ID>, d1: Map<String, ResolvedItemKind>, d2: Map<String, ResolvedItemKind>, out: ParseFileResult<ID>)
    requires fr.ast is Some, post_resolved(fr, d1, out), agree_on(d1, d2, qnames(fr.ast->0.imports@, fr.ast->0.imports@.len() as int))
    ensures post_resolved(fr, d2, out)
{
    let (a1, dd, pre, ins, dns) = choose |a1: ast::Aidl, dd: Seq<Diagnostic>, pre: Seq<Diagnostic>, ins: Set<String>, dns: Set<String>|
            ins == qnames(fr.ast->0.imports@, fr.ast->0.imports@.len() as int)
            && dns == qnames(fr.ast->0.declared_parcelables@, fr.ast->0.declared_parcelables@.len() as int)
            && #[trigger] aidl_rel(resolve_rel(ins, dns, d1), fr.ast->0, a1) && tree_propagated(a1, out.ast->0)
            && #[trigger] appended(fr.diagnostics@, dd, unknown_errs(types_pre_of(fr.ast->0), types_pre_of(fr.ast->0).len() as int, ins, dns, d1))
            && prefix_kept(dd, pre) && #[trigger] pre.to_multiset() == out.diagnostics@.to_multiset();
    lemma_resolve_rel_agree(ins, dns, d1, d2);
    lemma_unknown_errs_agree(types_pre_of(fr.ast->0), types_pre_of(fr.ast->0).len() as int, ins, dns, d1, d2);
    assert(aidl_rel(resolve_rel(ins, dns, d2), fr.ast->0, a1));
    assert(appended(fr.diagnostics@, dd, unknown_errs(types_pre_of(fr.ast->0), types_pre_of(fr.ast->0).len() as int, ins, dns, d2)));
}
// ... nor does the C06 part (the returned tree has the stored tree's import statements)
proof fn lemma_post_imports_agree<'a, ID>(fr: ParseFileResult<ID>, d1: Map<String, ResolvedItemKind>, d2: Map<String, ResolvedItemKind>, out: ParseFileResult<ID>)
    requires fr.ast is Some, post_imports(fr, d1, out), out.ast is Some, out.ast->0.imports == fr.ast->0.imports,
        agree_on(d1, d2, qnames(fr.ast->0.imports@, fr.ast->0.imports@.len() as int))
    ensures post_imports(fr, d2, out)
{
    let (res, d4, d5, d6, imap, pre, is, ds) = choose |res: Set<String>, d4: Seq<Diagnostic>, d5: Seq<Diagnostic>, d6: Seq<Diagnostic>, imap: Map<String, &'a ast::Import>, pre: Seq<Diagnostic>,
                                   is: Seq<ast::Import>, ds: Seq<ast::Import>|
            is == out.ast->0.imports@ && ds == out.ast->0.declared_parcelables@
            && #[trigger] imports_post(is, res, d1, d4, d5, imap)
            && import_map_ok(is, is.len() as int, imap)
            && #[trigger] decls_post(ds, imap, res, d5, d6)
            && coupled(kinds_pre_of(out.ast->0), res) && prefix_kept(fr.diagnostics@, d4)
            && prefix_kept(d6, pre) && #[trigger] pre.to_multiset() == out.diagnostics@.to_multiset();
    lemma_imports_post_agree(is, res, d1, d2, d4, d5, imap);
    assert(imports_post(is, res, d2, d4, d5, imap));
}
// C13: replacing the key -> kind map by one that agrees with it on the names this file imports leaves exactly the same
// results admissible for this file (whatever other files were added, removed or rewritten)
proof fn lemma_file_post_depends_on_imported_keys_only<'a, ID>(id: ID, fr: ParseFileResult<ID>, d1: Map<String, ResolvedItemKind>, d2: Map<String, ResolvedItemKind>, oid: ID, out: ParseFileResult<ID>)
    requires
        file_post(id, fr, d1, oid, out),
        fr.ast is Some ==> agree_on(d1, d2, qnames(fr.ast->0.imports@, fr.ast->0.imports@.len() as int)),
    ensures file_post(id, fr, d2, oid, out)
{
    if fr.ast is Some {
        // the returned tree keeps the stored tree's statements (resolution and oneway propagation touch the item only)
        let (a1, dd, pre, ins, dns) = choose |a1: ast::Aidl, dd: Seq<Diagnostic>, pre: Seq<Diagnostic>, ins: Set<String>, dns: Set<String>|
            ins == qnames(fr.ast->0.imports@, fr.ast->0.imports@.len() as int)
            && dns == qnames(fr.ast->0.declared_parcelables@, fr.ast->0.declared_parcelables@.len() as int)
            && #[trigger] aidl_rel(resolve_rel(ins, dns, d1), fr.ast->0, a1) && tree_propagated(a1, out.ast->0)
            && #[trigger] appended(fr.diagnostics@, dd, unknown_errs(types_pre_of(fr.ast->0), types_pre_of(fr.ast->0).len() as int, ins, dns, d1))
            && prefix_kept(dd, pre) && #[trigger] pre.to_multiset() == out.diagnostics@.to_multiset();
        assert(out.ast->0.imports == fr.ast->0.imports);
        lemma_post_resolved_agree(fr, d1, d2, out);
        lemma_post_imports_agree(fr, d1, d2, out);
    }
}
