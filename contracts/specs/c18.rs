// ---------- spec of C18 / C01(c): the doc-comment back-scan ----------
// bytes occupied by the last k characters
spec fn suffix_bytes(s: Seq<char>, k: int) -> int { byte_len(s) - byte_len(s.take(s.len() - k)) }

proof fn lemma_byte_len_take_step(s: Seq<char>, m: int)
    requires 0 <= m < s.len()
    ensures byte_len(s.take(m + 1)) == byte_len(s.take(m)) + utf8_len(s[m])
{
    assert(s.take(m + 1).drop_last() =~= s.take(m));
    assert(s.take(m + 1).last() == s[m]);
}
proof fn lemma_byte_len_monotone(s: Seq<char>, a: int, b: int)
    requires 0 <= a <= b <= s.len()
    ensures byte_len(s.take(a)) <= byte_len(s.take(b))
    decreases b - a
{
    if a < b { lemma_byte_len_take_step(s, b - 1); lemma_byte_len_monotone(s, a, b - 1); }
}
proof fn lemma_byte_len_full(s: Seq<char>)
    ensures byte_len(s.take(s.len() as int)) == byte_len(s)
{
    assert(s.take(s.len() as int) =~= s);
}

// the text strictly between a `/**` starting at character i and the `*/` starting at character j
spec fn doc_between(s: Seq<char>, r: Seq<char>) -> bool {
    exists |i: int, j: int| 0 <= i && i + 3 <= j && j + 2 <= s.len()
        && s[i] == '/' && s[i + 1] == '*' && s[i + 2] == '*' && s[j] == '*' && s[j + 1] == '/'
        && #[trigger] s.subrange(i + 3, j) == r
}

proof fn lemma_byte_len_strict(s: Seq<char>, a: int, b: int)
    requires 0 <= a < b <= s.len()
    ensures byte_len(s.take(a)) < byte_len(s.take(b))
{
    lemma_byte_len_take_step(s, b - 1);
    lemma_byte_len_monotone(s, a, b - 1);
}
proof fn lemma_suffix_at_least(s: Seq<char>, k: int)
    requires 0 <= k <= s.len()
    ensures suffix_bytes(s, k) >= k
    decreases k
{
    lemma_byte_len_full(s);
    if k > 0 {
        lemma_suffix_at_least(s, k - 1);
        lemma_byte_len_take_step(s, s.len() - k);
    } else {
        assert(s.take(s.len() as int) =~= s);
    }
}
// the character index of a boundary offset
spec fn ci(s: Seq<char>, off: int) -> int { choose |k: int| boundary_at(s, off, k) }
proof fn lemma_boundary_unique(s: Seq<char>, off: int, k: int)
    requires boundary_at(s, off, k)
    ensures ci(s, off) == k
{
    let c = ci(s, off);
    assert(boundary_at(s, off, c));
    if c < k { lemma_byte_len_strict(s, c, k); }
    if k < c { lemma_byte_len_strict(s, k, c); }
}

// the `*` of a closing `*/` is the ke-th character from the end and `e` bytes from the end
spec fn end_at(s: Seq<char>, ke: int) -> bool { 2 <= ke <= s.len() && s[s.len() - ke] == '*' && s[s.len() - ke + 1] == '/' }
spec fn end_rel(s: Seq<char>, e: int, ke: int) -> bool { end_at(s, ke) && e == suffix_bytes(s, ke) }
// the `/` of an opening `/**` is the ks-th character from the end; `st` bytes from the end is where the content starts
spec fn start_at(s: Seq<char>, ks: int) -> bool { 3 <= ks <= s.len() && s[s.len() - ks] == '/' && s[s.len() - ks + 1] == '*' && s[s.len() - ks + 2] == '*' }
spec fn start_rel(s: Seq<char>, st: int, ks: int) -> bool { start_at(s, ks) && st == suffix_bytes(s, ks) - 3 }
spec fn found_rel(s: Seq<char>, st: int, e: int) -> bool {
    exists |ks: int, ke: int| #[trigger] start_at(s, ks) && #[trigger] end_at(s, ke) && st == suffix_bytes(s, ks) - 3 && e == suffix_bytes(s, ke) && ks >= ke + 3
}

proof fn lemma_found_slice(s: Seq<char>, st: int, e: int)
    requires found_rel(s, st, e)
    ensures
        0 <= byte_len(s) - st <= byte_len(s) - e <= byte_len(s),
        ({ let a = byte_len(s) - st; let b = byte_len(s) - e;
           &&& boundary_at(s, a, ci(s, a)) && boundary_at(s, b, ci(s, b)) && ci(s, a) <= ci(s, b)
           &&& doc_between(s, s.subrange(ci(s, a), ci(s, b))) }),
{
    let (ks, ke) = choose |ks: int, ke: int| #[trigger] start_at(s, ks) && #[trigger] end_at(s, ke) && st == suffix_bytes(s, ks) - 3 && e == suffix_bytes(s, ke) && ks >= ke + 3;
    let n = s.len() as int;
    let a = byte_len(s) - st; let b = byte_len(s) - e;
    lemma_byte_len_full(s);
    lemma_byte_len_take_step(s, n - ks); lemma_byte_len_take_step(s, n - ks + 1); lemma_byte_len_take_step(s, n - ks + 2);
    assert(boundary_at(s, a, n - ks + 3));
    assert(boundary_at(s, b, n - ke));
    lemma_boundary_unique(s, a, n - ks + 3);
    lemma_boundary_unique(s, b, n - ke);
    lemma_byte_len_monotone(s, n - ks + 3, n - ke);
    lemma_byte_len_monotone(s, n - ke, n);
    lemma_byte_len_monotone(s, 0, n - ks + 3);
    assert(s.subrange(n - ks + 3, n - ke) == s.subrange((n - ks) + 3, n - ke));
}

// state of the back-scan after k characters
spec fn scan_inv(s: Seq<char>, k: int, before_end_slash: bool, inside: bool, bstar: bool, bstarstar: bool, end_pos: Option<usize>) -> bool {
    let n = s.len() as int;
    &&& (before_end_slash ==> k >= 1 && s[n - k] == '/')
    &&& (inside ==> end_pos is Some && exists |ke: int| #[trigger] end_at(s, ke) && end_pos->0 as int == suffix_bytes(s, ke) && ke <= k)
    &&& (bstar ==> end_pos is Some && k >= 1 && s[n - k] == '*' && exists |ke: int| #[trigger] end_at(s, ke) && end_pos->0 as int == suffix_bytes(s, ke) && ke + 1 <= k)
    &&& (bstarstar ==> end_pos is Some && k >= 2 && s[n - k] == '*' && s[n - k + 1] == '*' && exists |ke: int| #[trigger] end_at(s, ke) && end_pos->0 as int == suffix_bytes(s, ke) && ke + 2 <= k)
}

// what parse_javadoc (three regexes; opaque to the verifier) makes of a comment body: the contracts only say which body
pub uninterp spec fn spec_parse_javadoc(s: Seq<char>) -> Seq<char>;
