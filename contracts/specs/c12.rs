// ---------- spec of C12 / C13 (parser state), written from the property statements ----------
// what add_content stores for (id, content): a function of the text (parser stub), tagged with the id
spec fn stored_ok<ID>(id: ID, c: Seq<char>, fr: ParseFileResult<ID>) -> bool {
    &&& fr.id == id
    &&& fr.ast == (if spec_parse_ok(c) { spec_parse_tree(c) } else { None::<ast::Aidl> })
    &&& (spec_parse_ok(c) ==> fr.diagnostics@ =~= spec_parse_diags(c))
    // an unrecovered parse error: the parser's diagnostics plus exactly one Error built from it
    &&& (!spec_parse_ok(c) ==> fr.diagnostics@.len() == spec_parse_diags(c).len() + 1 && prefix_kept(spec_parse_diags(c), fr.diagnostics@) && fr.diagnostics@.last().kind is Error)
    &&& result_wf(fr)
    // C03: a result without a tree carries at least one Error
    &&& (fr.ast is None ==> exists |i: int| 0 <= i < fr.diagnostics@.len() && #[trigger] fr.diagnostics@[i].kind is Error)
}
// every slot is tagged with its own id and holds a grammatical tree
spec fn parser_wf<ID>(m: Map<ID, ParseFileResult<ID>>) -> bool {
    forall |k: ID| #[trigger] m.contains_key(k) ==> m[k].id == k && result_wf(m[k])
}
// key -> kind map built from package + item name + item kind of the stored trees only (C13)
spec fn keys_ok<ID>(m: Map<ID, ParseFileResult<ID>>, keys: Map<String, ResolvedItemKind>) -> bool {
    &&& forall |k: String| #[trigger] keys.contains_key(k) ==> exists |id: ID| m.contains_key(id) && (#[trigger] m[id]).ast is Some && key_of(m[id].ast->0) == k@ && keys[k] == kind_of(m[id].ast->0.item)
    &&& forall |id: ID| #[trigger] m.contains_key(id) && m[id].ast is Some ==> keys.contains_key(string_of(key_of(m[id].ast->0)))
}
// the rank that decides between several files defining the same item (C11): injective
spec fn kind_rank_spec(k: ResolvedItemKind) -> u8 {
    match k {
        ResolvedItemKind::Interface => 0u8,
        ResolvedItemKind::Parcelable => 1u8,
        ResolvedItemKind::Enum => 2u8,
        ResolvedItemKind::ForwardDeclaredParcelable => 3u8,
        ResolvedItemKind::UnknownImport => 4u8,
    }
}
// ... the kind registered under a key is the lowest-ranked kind among the stored trees with that key: with keys_ok (it IS the
// kind of one of them) this makes the map a function of the set of stored (key, kind) pairs, whatever the iteration order
spec fn keys_min<ID>(m: Map<ID, ParseFileResult<ID>>, keys: Map<String, ResolvedItemKind>) -> bool {
    forall |id: ID| #[trigger] m.contains_key(id) && m[id].ast is Some ==>
        kind_rank_spec(keys[string_of(key_of(m[id].ast->0))]) <= kind_rank_spec(kind_of(m[id].ast->0.item))
}
proof fn lemma_key_map_is_a_function<ID>(m: Map<ID, ParseFileResult<ID>>, k1: Map<String, ResolvedItemKind>, k2: Map<String, ResolvedItemKind>)
    requires keys_ok(m, k1), keys_min(m, k1), keys_ok(m, k2), keys_min(m, k2)
    ensures k1 =~= k2
{
    broadcast use axiom_string_ext;
    broadcast use axiom_string_of;
    assert forall |k: String| k1.contains_key(k) implies k2.contains_key(k) && k2[k] == k1[k] by {
        let id = choose |id: ID| m.contains_key(id) && (#[trigger] m[id]).ast is Some && key_of(m[id].ast->0) == k@ && k1[k] == kind_of(m[id].ast->0.item);
        assert(string_of(key_of(m[id].ast->0)) == k);
        assert(k2.contains_key(k));
        let id2 = choose |id2: ID| m.contains_key(id2) && (#[trigger] m[id2]).ast is Some && key_of(m[id2].ast->0) == k@ && k2[k] == kind_of(m[id2].ast->0.item);
        assert(string_of(key_of(m[id2].ast->0)) == k);
        assert(kind_rank_spec(k1[k]) <= kind_rank_spec(k2[k]) && kind_rank_spec(k2[k]) <= kind_rank_spec(k1[k]));
    }
    assert forall |k: String| k2.contains_key(k) implies k1.contains_key(k) by {
        let id2 = choose |id2: ID| m.contains_key(id2) && (#[trigger] m[id2]).ast is Some && key_of(m[id2].ast->0) == k@ && k2[k] == kind_of(m[id2].ast->0.item);
        assert(string_of(key_of(m[id2].ast->0)) == k);
    }
}
// what validate returns for the current state (C01 / C12 / C13): one entry per id, each constrained by its own slot and the key map
spec fn validated<ID>(m: Map<ID, ParseFileResult<ID>>, r: Map<ID, ParseFileResult<ID>>) -> bool {
    exists |keys: Map<String, ResolvedItemKind>| #[trigger] keys_ok(m, keys)
        && (forall |k2: ID| #[trigger] r.contains_key(k2) ==> exists |k: ID| m.contains_key(k) && file_post(k, m[k], keys, k2, r[k2]))
        && (forall |k: ID| #[trigger] m.contains_key(k) ==> exists |k2: ID| r.contains_key(k2) && file_post(k, m[k], keys, k2, r[k2]))
}

// history independence over the abstract state (id -> stored slot): what survives is what a fresh parser would hold
proof fn lemma_latest_content_wins<ID>(m: Map<ID, ParseFileResult<ID>>, id: ID, a: ParseFileResult<ID>, b: ParseFileResult<ID>)
    ensures m.insert(id, a).insert(id, b) =~= m.insert(id, b)
{
}
proof fn lemma_removed_is_absent<ID>(m: Map<ID, ParseFileResult<ID>>, id: ID, a: ParseFileResult<ID>)
    ensures m.insert(id, a).remove(id) =~= m.remove(id), !m.remove(id).contains_key(id), m.remove(id).remove(id) =~= m.remove(id)
{
}
proof fn lemma_ids_independent<ID>(m: Map<ID, ParseFileResult<ID>>, i1: ID, a: ParseFileResult<ID>, i2: ID, b: ParseFileResult<ID>)
    requires i1 != i2
    ensures
        m.insert(i1, a).insert(i2, b) =~= m.insert(i2, b).insert(i1, a),
        m.insert(i1, a).remove(i2) =~= m.remove(i2).insert(i1, a),
        m.insert(i1, a)[i1] == a && (m.contains_key(i2) ==> m.insert(i1, a)[i2] == m[i2]),
{
}
