// ---------- the `resolved` set (C05/C06 coupling) ----------
// the key a resolved type counts as a use of
spec fn resolved_key(k: TypeKind) -> Option<Seq<char>> {
    match k {
        TypeKind::ResolvedItem(key, _) => Some(key@),
        TypeKind::AndroidType(a) => Some(android_qname(a)),
        _ => None,
    }
}
// java.lang.String / java.lang.CharSequence may additionally be recorded for the two keyword types (no import can name them usefully)
spec fn java_lang_only(old_s: Set<String>, new_s: Set<String>) -> bool {
    old_s.subset_of(new_s) && forall |s: String| new_s.contains(s) && !old_s.contains(s) ==> s@ == "java.lang.String"@ || s@ == "java.lang.CharSequence"@
}
spec fn resolved_step(k: TypeKind, old_s: Set<String>, new_s: Set<String>) -> bool {
    match resolved_key(k) {
        Some(key) => new_s =~= old_s.insert(string_of(key)),
        None => if k is String || k is CharSequence { java_lang_only(old_s, new_s) } else { new_s =~= old_s },
    }
}
