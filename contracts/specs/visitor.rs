// ---------- class V: the abstract recording visitor ----------
// A generic `F: FnMut(&T)` parameter can interact with the walker only by being called. The walker is verified against
// the universal recorder below: every call `f(x)` becomes `f.visit(x)`, which appends x to a ghost log. What the walker
// guarantees for this recorder (the log grows by exactly the contract sequence) it guarantees for every closure.
// The type visitor announces a `universe` (fixed): the walker must only ever offer nodes of it, so a callback may rely on a
// property that all nodes of the tree have (check_containers: the grammar's arities), and it may keep an invariant.
trait TypeVisitor {
    type Fixed;
    #[verifier::prophetic]
    spec fn fixed(&self) -> Self::Fixed;
    spec fn universe(&self) -> Seq<ast::Type>;
    spec fn log(&self) -> Seq<ast::Type>;
    spec fn inv(&self) -> bool;
    fn visit(&mut self, t: &ast::Type)
        requires old(self).inv(), old(self).universe().contains(*t)
        ensures final(self).inv(), final(self).log() == old(self).log().push(*t), final(self).universe() == old(self).universe(),
            final(self).fixed() == old(self).fixed();
}
// The method visitor additionally announces what it expects to be offered (`plan`, fixed): the walker must offer exactly
// the next element of the plan at every call, so a callback may rely on "this is element number log().len() of the
// sequence" (check_methods does), and it may keep an invariant of its own choosing between calls.
trait MethodVisitor<'a> {
    type Fixed;                                   // whatever the callback never changes (its immutable captures)
    #[verifier::prophetic]
    spec fn fixed(&self) -> Self::Fixed;
    spec fn plan(&self) -> Seq<ast::Method>;
    spec fn log(&self) -> Seq<ast::Method>;
    spec fn inv(&self) -> bool;
    fn visit(&mut self, m: &'a ast::Method)
        requires old(self).inv(), old(self).log().len() < old(self).plan().len(), *m == old(self).plan()[old(self).log().len() as int]
        ensures final(self).inv(), final(self).log() == old(self).log().push(*m), final(self).plan() == old(self).plan(),
            final(self).fixed() == old(self).fixed();
}
trait ArgVisitor {
    spec fn log(&self) -> Seq<(ast::Method, ast::Arg)>;
    fn visit(&mut self, m: &ast::Method, a: &ast::Arg)
        ensures final(self).log() == old(self).log().push((*m, *a));
}
// mutable variant: the callback sees the node as it is when offered, may change it (as its step relation allows), keeps
// its children (frame assumed of the callback; proved for the closure of resolve_types), and maintains an invariant of
// its own choosing between visits
trait TypeMutVisitor {
    type Fixed;                                   // whatever the callback never changes (its immutable captures)
    #[verifier::prophetic]
    spec fn fixed(&self) -> Self::Fixed;
    spec fn log(&self) -> Seq<ast::Type>;
    spec fn out(&self) -> Seq<ast::TypeKind>;     // the kind each offered node was left with, in visit order
    spec fn inv(&self) -> bool;
    spec fn step_fn(&self) -> spec_fn(ast::Type, ast::Type) -> bool;
    fn visit(&mut self, t: &mut ast::Type)
        requires old(self).inv()
        ensures
            final(self).inv(),
            final(self).log() == old(self).log().push(*old(t)),
            final(self).out() == old(self).out().push(final(t).kind),
            final(t).generic_types == old(t).generic_types,
            (old(self).step_fn())(*old(t), *final(t)),
            final(self).step_fn() == old(self).step_fn(),
            final(self).fixed() == old(self).fixed();
}
