// ---------- class V: the abstract recording visitor ----------
// A generic `F: FnMut(&T)` parameter can interact with the walker only by being called. The walker is verified against
// the universal recorder below: every call `f(x)` becomes `f.visit(x)`, which appends x to a ghost log. What the walker
// guarantees for this recorder (the log grows by exactly the contract sequence) it guarantees for every closure.
trait TypeVisitor {
    spec fn log(&self) -> Seq<ast::Type>;
    fn visit(&mut self, t: &ast::Type)
        ensures final(self).log() == old(self).log().push(*t);
}
trait MethodVisitor {
    spec fn log(&self) -> Seq<ast::Method>;
    fn visit(&mut self, m: &ast::Method)
        ensures final(self).log() == old(self).log().push(*m);
}
trait ArgVisitor {
    spec fn log(&self) -> Seq<(ast::Method, ast::Arg)>;
    fn visit(&mut self, m: &ast::Method, a: &ast::Arg)
        ensures final(self).log() == old(self).log().push((*m, *a));
}
// mutable variant: the callback sees the node as it is when offered, may change it (as its step relation allows), keeps
// its children (frame assumed of the callback; proved for the closure of resolve_types), and maintains an invariant of
// its own choosing between visits
trait TypeMutVisitor {
    type Fixed;                                   // whatever the callback never changes (its immutable captures)
    #[verifier::prophetic]
    spec fn fixed(&self) -> Self::Fixed;
    spec fn log(&self) -> Seq<ast::Type>;
    spec fn out(&self) -> Seq<ast::TypeKind>;     // the kind each offered node was left with, in visit order
    spec fn inv(&self) -> bool;
    spec fn step_fn(&self) -> spec_fn(ast::Type, ast::Type) -> bool;
    fn visit(&mut self, t: &mut ast::Type)
        requires old(self).inv()
        ensures
            final(self).inv(),
            final(self).log() == old(self).log().push(*old(t)),
            final(self).out() == old(self).out().push(final(t).kind),
            final(t).generic_types == old(t).generic_types,
            (old(self).step_fn())(*old(t), *final(t)),
            final(self).step_fn() == old(self).step_fn(),
            final(self).fixed() == old(self).fixed();
}
