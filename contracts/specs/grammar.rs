// ---------- grammar actions (C04 ranges, C01 lookup preconditions, C03 recovery diagnostics) ----------
// a position the parser captured: usable by the line/column lookup and a character boundary of the input
spec fn cap_ok(lookup: &line_col::LineColLookup, input: &str, p: usize) -> bool {
    lookup.pos_ok(p) && exists |j: int| boundary_at(input@, p as int, j)
}
// C04: a reported range is a real span: both ends are what the lookup says about valid offsets, start <= end
spec fn range_ok(lookup: &line_col::LineColLookup, r: ast::Range) -> bool {
    r == range_at(lookup, r.start.offset, r.end.offset) && lookup.pos_ok(r.start.offset) && lookup.pos_ok(r.end.offset)
    && r.start.offset <= r.end.offset
}
spec fn inside(inner: ast::Range, outer: ast::Range) -> bool {
    outer.start.offset <= inner.start.offset && inner.end.offset <= outer.end.offset
}
// C04 for one construct: name range and full range are real spans, the name range inside the full range
spec fn node_ranges_ok(lookup: &line_col::LineColLookup, sym: ast::Range, full: ast::Range) -> bool {
    range_ok(lookup, sym) && range_ok(lookup, full) && inside(sym, full)
}
