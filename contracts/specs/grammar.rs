// ---------- grammar actions (C04 ranges, C01 lookup preconditions, C03 recovery diagnostics) ----------
// a position the parser captured: usable by the line/column lookup and a character boundary of the input
spec fn cap_ok(lookup: &line_col::LineColLookup, input: &str, p: usize) -> bool {
    lookup.pos_ok(p) && exists |j: int| boundary_at(input@, p as int, j)
}
// C04: a reported range is a real span: both ends are what the lookup says about valid offsets, start <= end
spec fn range_ok(lookup: &line_col::LineColLookup, r: ast::Range) -> bool {
    r == range_at(lookup, r.start.offset, r.end.offset) && lookup.pos_ok(r.start.offset) && lookup.pos_ok(r.end.offset)
    && r.start.offset <= r.end.offset
}
spec fn inside(inner: ast::Range, outer: ast::Range) -> bool {
    outer.start.offset <= inner.start.offset && inner.end.offset <= outer.end.offset
}
// C04 for one construct: name range and full range are real spans, the name range inside the full range
spec fn node_ranges_ok(lookup: &line_col::LineColLookup, sym: ast::Range, full: ast::Range) -> bool {
    range_ok(lookup, sym) && range_ok(lookup, full) && inside(sym, full)
}

// ---------- arities at every depth, production by production (C01d: what check_container relies on) ----------
spec fn method_wf(m: ast::Method) -> bool {
    type_wf(m.return_type) && forall |j: int| 0 <= j < m.args@.len() ==> type_wf(#[trigger] m.args@[j].arg_type)
}
spec fn iface_el_wf(el: ast::InterfaceElement) -> bool {
    match el { ast::InterfaceElement::Method(m) => method_wf(m), ast::InterfaceElement::Const(c) => type_wf(c.const_type) }
}
spec fn parc_el_wf(el: ast::ParcelableElement) -> bool {
    match el { ast::ParcelableElement::Field(f) => type_wf(f.field_type), ast::ParcelableElement::Const(c) => type_wf(c.const_type) }
}
spec fn item_wf(it: ast::Item) -> bool {
    match it {
        ast::Item::Interface(i) => forall |k: int| 0 <= k < i.elements@.len() ==> iface_el_wf(#[trigger] i.elements@[k]),
        ast::Item::Parcelable(p) => forall |k: int| 0 <= k < p.elements@.len() ==> parc_el_wf(#[trigger] p.elements@[k]),
        ast::Item::Enum(_) => true,
    }
}
// every kept element comes from the list it was filtered from
proof fn lemma_somes_from<T>(v: Seq<Option<T>>)
    ensures forall |k: int| 0 <= k < somes(v).len() ==> exists |j: int| 0 <= j < v.len() && v[j] == Some(#[trigger] somes(v)[k])
    decreases v.len()
{
    if v.len() > 0 {
        lemma_somes_from(v.drop_last());
        let a = somes(v.drop_last());
        assert forall |k: int| 0 <= k < somes(v).len() implies exists |j: int| 0 <= j < v.len() && v[j] == Some(#[trigger] somes(v)[k]) by {
            if k < a.len() {
                let j = choose |j: int| 0 <= j < v.drop_last().len() && v.drop_last()[j] == Some(a[k]);
                assert(v[j] == v.drop_last()[j]);
                assert(somes(v)[k] == a[k]);
            } else {
                assert(v[v.len() - 1] == Some(somes(v)[k]));
            }
        }
    }
}
// a well-formed type lists only nodes of the right arity
proof fn lemma_wf_flat(t: ast::Type)
    requires type_wf(t)
    ensures all_arity_ok(flat(t))
    decreases t, t.generic_types@.len() + 1
{
    lemma_wf_flat_kids(t, t.generic_types@.len() as int);
}
proof fn lemma_wf_flat_kids(t: ast::Type, n: int)
    requires type_wf(t), 0 <= n <= t.generic_types@.len()
    ensures all_arity_ok(flat_kids(t, n))
    decreases t, n
{
    if n > 0 {
        lemma_wf_flat_kids(t, n - 1);
        assert(type_wf(t.generic_types@[n - 1]));
        lemma_wf_flat(t.generic_types@[n - 1]);
    }
}
proof fn lemma_wf_args(args: Seq<ast::Arg>, n: int)
    requires 0 <= n <= args.len(), forall |j: int| 0 <= j < args.len() ==> type_wf(#[trigger] args[j].arg_type)
    ensures all_arity_ok(arg_types(args, n))
    decreases n
{
    if n > 0 { lemma_wf_args(args, n - 1); lemma_wf_flat(args[n - 1].arg_type); }
}
proof fn lemma_wf_iface(els: Seq<ast::InterfaceElement>, n: int)
    requires 0 <= n <= els.len(), forall |k: int| 0 <= k < els.len() ==> iface_el_wf(#[trigger] els[k])
    ensures all_arity_ok(iface_types(els, n))
    decreases n
{
    if n > 0 {
        lemma_wf_iface(els, n - 1);
        assert(iface_el_wf(els[n - 1]));
        match els[n - 1] {
            ast::InterfaceElement::Method(m) => { lemma_wf_flat(m.return_type); lemma_wf_args(m.args@, m.args@.len() as int); }
            ast::InterfaceElement::Const(c) => { lemma_wf_flat(c.const_type); }
        }
    }
}
proof fn lemma_wf_parc(els: Seq<ast::ParcelableElement>, n: int)
    requires 0 <= n <= els.len(), forall |k: int| 0 <= k < els.len() ==> parc_el_wf(#[trigger] els[k])
    ensures all_arity_ok(parc_types(els, n))
    decreases n
{
    if n > 0 {
        lemma_wf_parc(els, n - 1);
        assert(parc_el_wf(els[n - 1]));
        match els[n - 1] {
            ast::ParcelableElement::Field(f) => { lemma_wf_flat(f.field_type); }
            ast::ParcelableElement::Const(c) => { lemma_wf_flat(c.const_type); }
        }
    }
}
proof fn lemma_item_wf_types(a: ast::Aidl)
    requires item_wf(a.item)
    ensures all_arity_ok(types_of(a))
{
    match a.item {
        ast::Item::Interface(i) => { lemma_wf_iface(i.elements@, i.elements@.len() as int); }
        ast::Item::Parcelable(p) => { lemma_wf_parc(p.elements@, p.elements@.len() as int); }
        ast::Item::Enum(_) => {}
    }
}
