// ---------- positions and ranges (C04 / C01b) ----------
spec fn pos_at(lookup: &line_col::LineColLookup, off: usize) -> ast::Position {
    ast::Position { offset: off, line_col: lookup.line_col_of(off) }
}
spec fn range_at(lookup: &line_col::LineColLookup, a: usize, b: usize) -> ast::Range {
    ast::Range { start: pos_at(lookup, a), end: pos_at(lookup, b) }
}
