// spec vocabulary over the extracted ast types (pure spec; no trusted text)
