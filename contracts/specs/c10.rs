// ---------- spec of C10 (oneway propagation), written from the property statement ----------
spec fn element_propagated(o: ast::InterfaceElement, n: ast::InterfaceElement, iface_oneway: bool) -> bool {
    match (o, n) {
        (ast::InterfaceElement::Const(c), ast::InterfaceElement::Const(c2)) => c2 == c,
        (ast::InterfaceElement::Method(m), ast::InterfaceElement::Method(m2)) => m2 == ast::Method { oneway: m.oneway || iface_oneway, ..m },
        _ => false,
    }
}
spec fn oneway_propagated(o: ast::Interface, n: ast::Interface) -> bool {
    &&& n.oneway == o.oneway && n.name == o.name && n.annotations == o.annotations && n.doc == o.doc
    &&& n.full_range == o.full_range && n.symbol_range == o.symbol_range
    &&& n.elements@.len() == o.elements@.len()
    &&& forall |k: int| 0 <= k < o.elements@.len() ==> element_propagated(#[trigger] o.elements@[k], n.elements@[k], o.oneway)
}
// one Warning on the redundant keyword (related: the interface name) per method of a oneway interface that spells oneway itself
spec fn oneway_expect(i: ast::Interface, n: int) -> Seq<EX>
    decreases n
{
    if n <= 0 || !i.oneway { Seq::<EX>::empty() }
    else {
        oneway_expect(i, n - 1) + (match i.elements@[n - 1] {
            ast::InterfaceElement::Method(m) => if m.oneway { seq![EX::Rel(warn(m.oneway_range), i.symbol_range)] } else { Seq::<EX>::empty() },
            ast::InterfaceElement::Const(_) => Seq::<EX>::empty(),
        })
    }
}


// oneway propagation changes no type node (so the container diagnostics speak about the returned tree)
broadcast proof fn lemma_propagation_keeps_types(o: ast::Interface, n: ast::Interface)
    requires #[trigger] oneway_propagated(o, n)
    ensures iface_types(n.elements@, n.elements@.len() as int) == iface_types(o.elements@, o.elements@.len() as int)
{
    lemma_propagation_keeps_types_upto(o, n, o.elements@.len() as int);
}
proof fn lemma_propagation_keeps_types_upto(o: ast::Interface, n: ast::Interface, k: int)
    requires oneway_propagated(o, n), 0 <= k <= o.elements@.len()
    ensures iface_types(n.elements@, k) == iface_types(o.elements@, k)
    decreases k
{
    if k > 0 {
        lemma_propagation_keeps_types_upto(o, n, k - 1);
        assert(element_propagated(o.elements@[k - 1], n.elements@[k - 1], o.oneway));
    }
}

// ... nor the kind of any type node, in the walker's order (so `resolved` speaks about the returned tree)
broadcast proof fn lemma_propagation_keeps_kinds(o: ast::Interface, n: ast::Interface)
    requires #[trigger] oneway_propagated(o, n)
    ensures kpre_iface(n.elements@, n.elements@.len() as int) == kpre_iface(o.elements@, o.elements@.len() as int)
{
    lemma_propagation_keeps_kinds_upto(o, n, o.elements@.len() as int);
}
proof fn lemma_propagation_keeps_kinds_upto(o: ast::Interface, n: ast::Interface, k: int)
    requires oneway_propagated(o, n), 0 <= k <= o.elements@.len()
    ensures kpre_iface(n.elements@, k) == kpre_iface(o.elements@, k)
    decreases k
{
    if k > 0 {
        lemma_propagation_keeps_kinds_upto(o, n, k - 1);
        assert(element_propagated(o.elements@[k - 1], n.elements@[k - 1], o.oneway));
    }
}
