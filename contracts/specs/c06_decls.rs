// ---------- spec of C06 (forward-declared parcelables), written from the property statement ----------
// an import of the same simple name
spec fn same_simple_name(imp: ast::Import, d: ast::Import) -> bool { imp.name@ == d.name@ }
spec fn conflict_with(d: ast::Import, k: String, m: Map<String, &ast::Import>) -> bool { m.contains_key(k) && same_simple_name(*m[k], d) }
spec fn conflicts(d: ast::Import, m: Map<String, &ast::Import>) -> bool { exists |k: String| conflict_with(d, k, m) }
// the import reported as conflicting: the one with the smallest qualified name (hash-order independent)
spec fn min_conflict(d: ast::Import, k: String, m: Map<String, &ast::Import>) -> bool {
    conflict_with(d, k, m) && forall |k2: String| conflict_with(d, k2, m) ==> string_le(k@, #[trigger] k2@)
}
spec fn the_conflict(d: ast::Import, m: Map<String, &ast::Import>) -> String { choose |k: String| min_conflict(d, k, m) }

proof fn lemma_min_conflict_unique(d: ast::Import, m: Map<String, &ast::Import>, k: String)
    requires min_conflict(d, k, m)
    ensures conflicts(d, m), the_conflict(d, m) == k
{
    broadcast use axiom_string_le_antisym;
    broadcast use axiom_string_ext;
    assert(conflict_with(d, k, m));
    let c = the_conflict(d, m);
    assert(min_conflict(d, c, m));
    assert(string_le(k@, c@));
    assert(string_le(c@, k@));
}

// first declaration j < upto that takes part (no conflict) and has the same qualified name as ds[i], or -1
spec fn first_decl(ds: Seq<ast::Import>, m: Map<String, &ast::Import>, i: int, upto: int) -> int
    decreases upto
{
    if upto <= 0 { -1 }
    else {
        let r = first_decl(ds, m, i, upto - 1);
        if r >= 0 { r } else if !conflicts(ds[upto - 1], m) && import_qname(ds[upto - 1]) == import_qname(ds[i]) { upto - 1 } else { -1 }
    }
}
proof fn lemma_first_decl(ds: Seq<ast::Import>, m: Map<String, &ast::Import>, i: int, upto: int)
    requires 0 <= upto <= i < ds.len()
    ensures
        ({ let f = first_decl(ds, m, i, upto);
           &&& -1 <= f < upto
           &&& (f >= 0 ==> !conflicts(ds[f], m) && import_qname(ds[f]) == import_qname(ds[i])
                    && forall |j: int| 0 <= j < f ==> conflicts(ds[j], m) || import_qname(ds[j]) != import_qname(ds[i]))
           &&& (f < 0 ==> forall |j: int| 0 <= j < upto ==> conflicts(ds[j], m) || import_qname(ds[j]) != import_qname(ds[i])) })
    decreases upto
{
    if upto > 0 { lemma_first_decl(ds, m, i, upto - 1); }
}
proof fn lemma_first_decl_is_first(ds: Seq<ast::Import>, m: Map<String, &ast::Import>, i: int)
    requires 0 <= i < ds.len(), first_decl(ds, m, i, i) >= 0
    ensures ({ let f = first_decl(ds, m, i, i); 0 <= f < i && first_decl(ds, m, f, f) < 0 && !conflicts(ds[f], m) && import_qname(ds[f]) == import_qname(ds[i]) })
{
    lemma_first_decl(ds, m, i, i);
    lemma_first_decl(ds, m, first_decl(ds, m, i, i), first_decl(ds, m, i, i));
}

// phase 1, per declaration: conflict with an import of the same simple name, else repeated declaration, else recorded
spec fn decl_step(ds: Seq<ast::Import>, m: Map<String, &ast::Import>, i: int) -> Seq<EX> {
    if conflicts(ds[i], m) { seq![EX::Rel(err(ds[i].symbol_range), m[the_conflict(ds[i], m)].symbol_range)] }
    else if first_decl(ds, m, i, i) >= 0 { seq![EX::Rel(err(ds[i].symbol_range), ds[first_decl(ds, m, i, i)].symbol_range)] }
    else { Seq::<EX>::empty() }
}
spec fn decls_expect(ds: Seq<ast::Import>, m: Map<String, &ast::Import>, n: int) -> Seq<EX>
    decreases n
{
    if n <= 0 { Seq::<EX>::empty() } else { decls_expect(ds, m, n - 1) + decl_step(ds, m, n - 1) }
}
// the declarations that are neither conflicting nor repeats, by qualified name
spec fn decl_map_ok(ds: Seq<ast::Import>, m: Map<String, &ast::Import>, n: int, dm: Map<String, &ast::Import>) -> bool {
    &&& forall |s: String| #[trigger] dm.contains_key(s) <==> exists |j: int| 0 <= j < n && !conflicts(#[trigger] ds[j], m) && import_qname(ds[j]) == s@
    &&& forall |j: int| 0 <= j < n && !conflicts(ds[j], m) && first_decl(ds, m, j, j) < 0 ==> #[trigger] dm[string_of(import_qname(ds[j]))] == &ds[j]
}
// phase 2, per recorded declaration: unused -> Warning on the name; used -> the discouragement Warning on the statement
spec fn classify_decl(q: String, d: ast::Import, resolved: Set<String>) -> Seq<EX> {
    if !resolved.contains(q) { seq![EX::Tag(warn(d.symbol_range), "unused declared parcelable"@)] }
    else { seq![EX::Tag(warn(d.full_range), "declared parcelable"@)] }
}
spec fn decls_classified<'a>(ks: Seq<(String, &'a ast::Import)>, n: int, resolved: Set<String>) -> Seq<EX>
    decreases n
{
    if n <= 0 { Seq::<EX>::empty() } else { decls_classified(ks, n - 1, resolved) + classify_decl(ks[n - 1].0, *ks[n - 1].1, resolved) }
}
spec fn decls_post<'a>(ds: Seq<ast::Import>, m: Map<String, &'a ast::Import>, resolved: Set<String>, old_d: Seq<Diagnostic>, new_d: Seq<Diagnostic>) -> bool {
    exists |dm: Map<String, &'a ast::Import>, ks: Seq<(String, &'a ast::Import)>| decl_map_ok(ds, m, ds.len() as int, dm) && #[trigger] seq_enumerates_map(ks, dm)
        && appended_ex(old_d, new_d, decls_expect(ds, m, ds.len() as int) + decls_classified(ks, ks.len() as int, resolved))
}
