// Shared spec vocabulary (pure spec; nothing trusted here).
use ast::{TypeKind, AndroidTypeKind, ResolvedItemKind};


// "append only": everything that was in the list is still there, in place
spec fn prefix_kept(old_d: Seq<Diagnostic>, new_d: Seq<Diagnostic>) -> bool {
    old_d.len() <= new_d.len() && forall |i: int| 0 <= i < old_d.len() ==> #[trigger] new_d[i] == old_d[i]
}

// the observable part of a diagnostic that the property statements talk about
pub struct DP { pub kind: DiagnosticKind, pub range: ast::Range }

spec fn dp(d: Diagnostic) -> DP { DP { kind: d.kind, range: d.range } }
spec fn err(r: ast::Range) -> DP { DP { kind: DiagnosticKind::Error, range: r } }
spec fn warn(r: ast::Range) -> DP { DP { kind: DiagnosticKind::Warning, range: r } }

// new_d == old_d followed by diagnostics whose observable parts are exactly xs (same order)
spec fn appended(old_d: Seq<Diagnostic>, new_d: Seq<Diagnostic>, xs: Seq<DP>) -> bool {
    &&& prefix_kept(old_d, new_d)
    &&& new_d.len() == old_d.len() + xs.len()
    &&& forall |i: int| old_d.len() <= i < new_d.len() ==> dp(#[trigger] new_d[i]) == xs[i - old_d.len()]
}

// ---------- type well-formedness (arity) ----------
// Array: 1 child; List: 0 or 1; Map: 0 or 2; every other kind: no children -- at every depth.
spec fn arity_ok(t: ast::Type) -> bool {
    match t.kind {
        TypeKind::Array => t.generic_types@.len() == 1,
        TypeKind::List => t.generic_types@.len() == 0 || t.generic_types@.len() == 1,
        TypeKind::Map => t.generic_types@.len() == 0 || t.generic_types@.len() == 2,
        _ => t.generic_types@.len() == 0,
    }
}

spec fn type_wf(t: ast::Type) -> bool
    decreases t
{
    arity_ok(t) && forall |i: int| 0 <= i < t.generic_types@.len() ==> type_wf(#[trigger] t.generic_types@[i])
}

// ---------- expectations that also pin the (single) related range ----------
pub enum EX { Plain(DP), Rel(DP, ast::Range), Tag(DP, Seq<char>) }

spec fn matches_ex(d: Diagnostic, e: EX) -> bool {
    match e {
        EX::Plain(p) => dp(d) == p,
        EX::Rel(p, r) => dp(d) == p && d.related_infos@.len() == 1 && d.related_infos@[0].range == r,
        // Tag: the short context message tells the situations of one statement apart ('unused' vs 'unresolved' ...)
        EX::Tag(p, t) => dp(d) == p && d.context_message is Some && d.context_message->0@ == t && d.related_infos@.len() == 0,
    }
}
spec fn plain(xs: Seq<DP>) -> Seq<EX> { xs.map_values(|p: DP| EX::Plain(p)) }

spec fn appended_ex(old_d: Seq<Diagnostic>, new_d: Seq<Diagnostic>, xs: Seq<EX>) -> bool {
    &&& prefix_kept(old_d, new_d)
    &&& new_d.len() == old_d.len() + xs.len()
    &&& forall |i: int| old_d.len() <= i < new_d.len() ==> matches_ex(#[trigger] new_d[i], xs[i - old_d.len()])
}

// ---------- head / tail forms (to attribute a deviation to the property whose diagnostics are affected) ----------
// the first |xs| appended diagnostics are xs
spec fn head_ex(old_d: Seq<Diagnostic>, new_d: Seq<Diagnostic>, xs: Seq<EX>) -> bool {
    &&& prefix_kept(old_d, new_d)
    &&& new_d.len() >= old_d.len() + xs.len()
    &&& forall |i: int| old_d.len() <= i < old_d.len() + xs.len() ==> matches_ex(#[trigger] new_d[i], xs[i - old_d.len()])
}
// the last |xs| appended diagnostics are xs
spec fn tail_ex(old_d: Seq<Diagnostic>, new_d: Seq<Diagnostic>, xs: Seq<EX>) -> bool {
    &&& prefix_kept(old_d, new_d)
    &&& new_d.len() >= old_d.len() + xs.len()
    &&& forall |i: int| new_d.len() - xs.len() <= i < new_d.len() ==> matches_ex(#[trigger] new_d[i], xs[i - (new_d.len() - xs.len())])
}
// whatever was appended before the last n entries carries no related information
spec fn plain_before_tail(old_d: Seq<Diagnostic>, new_d: Seq<Diagnostic>, n: int) -> bool {
    forall |i: int| old_d.len() <= i < new_d.len() - n ==> (#[trigger] new_d[i]).related_infos@.len() == 0
}

spec fn all_arity_ok(ts: Seq<ast::Type>) -> bool { forall |i: int| 0 <= i < ts.len() ==> arity_ok(#[trigger] ts[i]) }
