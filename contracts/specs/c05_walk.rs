// ---------- resolve_types as a whole: the proved per-node step, carried through the proved mutable walker ----------
// what the resolver may do to one node (children are kept; the walker handles them)
spec fn resolve_step(o: ast::Type, n: ast::Type, imports: Set<String>, declared: Set<String>, defined: Map<String, ResolvedItemKind>) -> bool {
    &&& n.name == o.name && n.symbol_range == o.symbol_range && n.full_range == o.full_range && n.generic_types == o.generic_types
    &&& (!(o.kind is Unresolved) ==> n.kind == o.kind)
    &&& (o.kind is Unresolved ==> allowed(n.kind, o.name@, imports, declared, defined))
}
spec fn resolve_rel(imports: Set<String>, declared: Set<String>, defined: Map<String, ResolvedItemKind>) -> spec_fn(ast::Type, ast::Type) -> bool {
    |o: ast::Type, n: ast::Type| resolve_step(o, n, imports, declared, defined)
}
// a written name that no rule of the resolution order serves
spec fn unknown_name(t: ast::Type, imports: Set<String>, declared: Set<String>, defined: Map<String, ResolvedItemKind>) -> bool {
    t.kind is Unresolved && allowed(TypeKind::Unresolved, t.name@, imports, declared, defined)
}
// exactly one 'unknown type' Error on the name of every such node, in visit order; nothing for any other node
spec fn unknown_errs(ts: Seq<ast::Type>, n: int, imports: Set<String>, declared: Set<String>, defined: Map<String, ResolvedItemKind>) -> Seq<DP>
    decreases n
{
    if n <= 0 { Seq::<DP>::empty() }
    else { unknown_errs(ts, n - 1, imports, declared, defined) + (if unknown_name(ts[n - 1], imports, declared, defined) { seq![err(ts[n - 1].symbol_range)] } else { Seq::<DP>::empty() }) }
}

// the rules are mutually exclusive with "unresolved": a name that stays unresolved could not have been classified otherwise
proof fn lemma_unresolved_exclusive(k: TypeKind, name: Seq<char>, imports: Set<String>, declared: Set<String>, defined: Map<String, ResolvedItemKind>)
    requires allowed(k, name, imports, declared, defined), allowed(TypeKind::Unresolved, name, imports, declared, defined)
    ensures k is Unresolved
{
    match k {
        TypeKind::AndroidType(a) => {
            if android_qname(a) == name && (can_q(a) || has_exact_import(imports, name)) {
                if can_q(a) { assert(qual_builtin(name)); }
                else {
                    let p = choose |p: String| #[trigger] imports.contains(p) && p@ == name;
                    assert(import_matches(p@, name));
                    assert(has_import(imports, name));
                }
            } else if !qual_builtin(name) && (exists |p: String| imports.contains(p) && import_matches(p@, name) && android_qname(a) == p@) {
                let p = choose |p: String| imports.contains(p) && import_matches(p@, name) && android_qname(a) == p@;
                assert(has_import(imports, name));
            } else {
                assert(simple_builtin(name));
            }
        }
        TypeKind::ResolvedItem(p, rk) => {
            if imports.contains(p) && import_matches(p@, name) { assert(has_import(imports, name)); }
            else { assert(has_fwd(declared, name)); }
        }
        _ => {}
    }
}

proof fn lemma_unknown_errs_prefix(ts: Seq<ast::Type>, x: ast::Type, n: int, imports: Set<String>, declared: Set<String>, defined: Map<String, ResolvedItemKind>)
    requires 0 <= n <= ts.len()
    ensures unknown_errs(ts.push(x), n, imports, declared, defined) == unknown_errs(ts, n, imports, declared, defined)
    decreases n
{
    if n > 0 {
        lemma_unknown_errs_prefix(ts, x, n - 1, imports, declared, defined);
        assert(ts.push(x)[n - 1] == ts[n - 1]);
    }
}

// resolution keeps the grammar's arities (a kind changes only from Unresolved, to a kind without children) and keeps
// "is an array", so the flat list of the resolved tree lines up with the flat list of the tree as parsed
broadcast proof fn lemma_resolve_keeps_arity(a: ast::Aidl, b: ast::Aidl, imports: Set<String>, declared: Set<String>, defined: Map<String, ResolvedItemKind>)
    requires #[trigger] aidl_rel(resolve_rel(imports, declared, defined), a, b), all_arity_ok(types_of(a))
    ensures all_arity_ok(types_of(b)), types_of(b).len() == types_of(a).len()
{
    let step = resolve_rel(imports, declared, defined);
    assert(keeps_array(step));
    lemma_types_of_rel(step, a, b);
    assert forall |i: int| 0 <= i < types_of(b).len() implies arity_ok(#[trigger] types_of(b)[i]) by {
        assert(node_step(step, types_of(a)[i], types_of(b)[i]));
        assert(arity_ok(types_of(a)[i]));
    }
}

// ---------- the `resolved` set against the kinds the walk left behind (C06 coupling) ----------
spec fn key_in(k: TypeKind, r: Set<String>) -> bool {
    match resolved_key(k) { Some(key) => r.contains(string_of(key)), None => true }
}
// why a member of `resolved` is there: it is the key of this kind, or one of the two java.lang names for a keyword type
spec fn source_of(k: TypeKind, s: String) -> bool {
    resolved_key(k) == Some(s@)
    || ((k is String || k is CharSequence) && (s@ == "java.lang.String"@ || s@ == "java.lang.CharSequence"@))
}
spec fn has_source(ks: Seq<TypeKind>, s: String) -> bool {
    exists |i: int| 0 <= i < ks.len() && source_of(#[trigger] ks[i], s)
}
// `resolved` holds the key of every listed kind, and nothing that no listed kind accounts for
spec fn coupled(ks: Seq<TypeKind>, r: Set<String>) -> bool {
    &&& forall |i: int| 0 <= i < ks.len() ==> key_in(#[trigger] ks[i], r)
    &&& forall |s: String| #[trigger] r.contains(s) ==> has_source(ks, s)
}
proof fn lemma_coupled_step(ks: Seq<TypeKind>, r: Set<String>, k: TypeKind, r2: Set<String>)
    requires coupled(ks, r), resolved_step(k, r, r2)
    ensures coupled(ks.push(k), r2)
{
    broadcast use axiom_string_of;
    broadcast use axiom_string_ext;
    let ks2 = ks.push(k);
    assert(r.subset_of(r2));
    assert forall |i: int| 0 <= i < ks2.len() implies key_in(#[trigger] ks2[i], r2) by {
        if i < ks.len() { assert(ks2[i] == ks[i]); assert(key_in(ks[i], r)); }
    }
    assert forall |s: String| #[trigger] r2.contains(s) implies has_source(ks2, s) by {
        if r.contains(s) {
            let i = choose |i: int| 0 <= i < ks.len() && source_of(#[trigger] ks[i], s);
            assert(ks2[i] == ks[i]);
        } else {
            assert(ks2[ks.len() as int] == k);
            assert(source_of(k, s));
        }
    }
}
