// ---------- from the tree relation of the mutable walker to the flat type list (types_of) ----------
// a step on one node, children put back (what type_rel says about each node)
spec fn node_step(step: spec_fn(ast::Type, ast::Type) -> bool, o: ast::Type, n: ast::Type) -> bool {
    step(o, ast::Type { generic_types: o.generic_types, ..n }) && n.generic_types@.len() == o.generic_types@.len()
}
spec fn pointwise(step: spec_fn(ast::Type, ast::Type) -> bool, xs: Seq<ast::Type>, ys: Seq<ast::Type>) -> bool {
    xs.len() == ys.len() && forall |k: int| 0 <= k < xs.len() ==> node_step(step, #[trigger] xs[k], ys[k])
}
// the listing order of a node and its children depends on "is an array" only: a step that keeps that keeps the order
spec fn keeps_array(step: spec_fn(ast::Type, ast::Type) -> bool) -> bool {
    forall |o: ast::Type, n: ast::Type| #[trigger] step(o, n) ==> (n.kind is Array <==> o.kind is Array)
}

proof fn lemma_pw_concat(step: spec_fn(ast::Type, ast::Type) -> bool, a1: Seq<ast::Type>, b1: Seq<ast::Type>, a2: Seq<ast::Type>, b2: Seq<ast::Type>)
    requires pointwise(step, a1, b1), pointwise(step, a2, b2)
    ensures pointwise(step, a1 + a2, b1 + b2)
{
    assert forall |k: int| 0 <= k < (a1 + a2).len() implies node_step(step, #[trigger] (a1 + a2)[k], (b1 + b2)[k]) by {
        if k < a1.len() { assert((a1 + a2)[k] == a1[k] && (b1 + b2)[k] == b1[k]); }
        else { assert((a1 + a2)[k] == a2[k - a1.len()] && (b1 + b2)[k] == b2[k - a1.len()]); }
    }
}

proof fn lemma_flat_rel(step: spec_fn(ast::Type, ast::Type) -> bool, o: ast::Type, n: ast::Type)
    requires keeps_array(step), type_rel(step, o, n)
    ensures pointwise(step, flat(o), flat(n))
    decreases o, o.generic_types@.len() + 1
{
    let len = o.generic_types@.len() as int;
    lemma_flat_kids_rel(step, o, n, len);
    assert(node_step(step, o, n));
    assert(pointwise(step, seq![o], seq![n]));
    if o.kind is Array { lemma_pw_concat(step, flat_kids(o, len), flat_kids(n, len), seq![o], seq![n]); }
    else { lemma_pw_concat(step, seq![o], seq![n], flat_kids(o, len), flat_kids(n, len)); }
}
proof fn lemma_flat_kids_rel(step: spec_fn(ast::Type, ast::Type) -> bool, o: ast::Type, n: ast::Type, k: int)
    requires keeps_array(step), type_rel(step, o, n), 0 <= k <= o.generic_types@.len()
    ensures pointwise(step, flat_kids(o, k), flat_kids(n, k))
    decreases o, k
{
    if k > 0 {
        lemma_flat_kids_rel(step, o, n, k - 1);
        lemma_flat_rel(step, o.generic_types@[k - 1], n.generic_types@[k - 1]);
        lemma_pw_concat(step, flat_kids(o, k - 1), flat_kids(n, k - 1), flat(o.generic_types@[k - 1]), flat(n.generic_types@[k - 1]));
    }
}
proof fn lemma_args_rel(step: spec_fn(ast::Type, ast::Type) -> bool, oa: Seq<ast::Arg>, na: Seq<ast::Arg>, k: int)
    requires keeps_array(step), oa.len() == na.len(), 0 <= k <= oa.len(),
        forall |j: int| 0 <= j < oa.len() ==> arg_rel(step, #[trigger] oa[j], na[j])
    ensures pointwise(step, arg_types(oa, k), arg_types(na, k))
    decreases k
{
    if k > 0 {
        lemma_args_rel(step, oa, na, k - 1);
        assert(arg_rel(step, oa[k - 1], na[k - 1]));
        lemma_flat_rel(step, oa[k - 1].arg_type, na[k - 1].arg_type);
        lemma_pw_concat(step, arg_types(oa, k - 1), arg_types(na, k - 1), flat(oa[k - 1].arg_type), flat(na[k - 1].arg_type));
    }
}
proof fn lemma_iface_el_rel(step: spec_fn(ast::Type, ast::Type) -> bool, o: ast::InterfaceElement, n: ast::InterfaceElement)
    requires keeps_array(step), iface_el_rel(step, o, n)
    ensures pointwise(step, iface_el_types(o), iface_el_types(n))
{
    match (o, n) {
        (ast::InterfaceElement::Method(a), ast::InterfaceElement::Method(b)) => {
            lemma_flat_rel(step, a.return_type, b.return_type);
            lemma_args_rel(step, a.args@, b.args@, a.args@.len() as int);
            lemma_pw_concat(step, flat(a.return_type), flat(b.return_type), arg_types(a.args@, a.args@.len() as int), arg_types(b.args@, b.args@.len() as int));
        }
        (ast::InterfaceElement::Const(a), ast::InterfaceElement::Const(b)) => { lemma_flat_rel(step, a.const_type, b.const_type); }
        _ => {}
    }
}
proof fn lemma_parc_el_rel(step: spec_fn(ast::Type, ast::Type) -> bool, o: ast::ParcelableElement, n: ast::ParcelableElement)
    requires keeps_array(step), parc_el_rel(step, o, n)
    ensures pointwise(step, parc_el_types(o), parc_el_types(n))
{
    match (o, n) {
        (ast::ParcelableElement::Field(a), ast::ParcelableElement::Field(b)) => { lemma_flat_rel(step, a.field_type, b.field_type); }
        (ast::ParcelableElement::Const(a), ast::ParcelableElement::Const(b)) => { lemma_flat_rel(step, a.const_type, b.const_type); }
        _ => {}
    }
}
proof fn lemma_iface_rel(step: spec_fn(ast::Type, ast::Type) -> bool, oe: Seq<ast::InterfaceElement>, ne: Seq<ast::InterfaceElement>, k: int)
    requires keeps_array(step), oe.len() == ne.len(), 0 <= k <= oe.len(),
        forall |j: int| 0 <= j < oe.len() ==> iface_el_rel(step, #[trigger] oe[j], ne[j])
    ensures pointwise(step, iface_types(oe, k), iface_types(ne, k))
    decreases k
{
    if k > 0 {
        lemma_iface_rel(step, oe, ne, k - 1);
        assert(iface_el_rel(step, oe[k - 1], ne[k - 1]));
        lemma_iface_el_rel(step, oe[k - 1], ne[k - 1]);
        lemma_pw_concat(step, iface_types(oe, k - 1), iface_types(ne, k - 1), iface_el_types(oe[k - 1]), iface_el_types(ne[k - 1]));
    }
}
proof fn lemma_parc_rel(step: spec_fn(ast::Type, ast::Type) -> bool, oe: Seq<ast::ParcelableElement>, ne: Seq<ast::ParcelableElement>, k: int)
    requires keeps_array(step), oe.len() == ne.len(), 0 <= k <= oe.len(),
        forall |j: int| 0 <= j < oe.len() ==> parc_el_rel(step, #[trigger] oe[j], ne[j])
    ensures pointwise(step, parc_types(oe, k), parc_types(ne, k))
    decreases k
{
    if k > 0 {
        lemma_parc_rel(step, oe, ne, k - 1);
        assert(parc_el_rel(step, oe[k - 1], ne[k - 1]));
        lemma_parc_el_rel(step, oe[k - 1], ne[k - 1]);
        lemma_pw_concat(step, parc_types(oe, k - 1), parc_types(ne, k - 1), parc_el_types(oe[k - 1]), parc_el_types(ne[k - 1]));
    }
}
// the walker's tree relation, read off the flat list: same length, node k relates to node k
proof fn lemma_types_of_rel(step: spec_fn(ast::Type, ast::Type) -> bool, a: ast::Aidl, b: ast::Aidl)
    requires keeps_array(step), aidl_rel(step, a, b)
    ensures pointwise(step, types_of(a), types_of(b))
{
    match (a.item, b.item) {
        (ast::Item::Interface(x), ast::Item::Interface(y)) => { lemma_iface_rel(step, x.elements@, y.elements@, x.elements@.len() as int); }
        (ast::Item::Parcelable(x), ast::Item::Parcelable(y)) => { lemma_parc_rel(step, x.elements@, y.elements@, x.elements@.len() as int); }
        _ => {}
    }
}
