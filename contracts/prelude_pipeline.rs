// TRUSTED PIPELINE CONTRACT -- the one function of /repo/src/validation.rs whose body is not verified as a whole:
//   resolve_types  hands a closure with mutable captures to walk_types_mut.
// Both halves ARE proved: the closure (lifted, unit v_resolve: per-node step, frame, one Error iff unresolved, `resolved`
// gains the node's key) and the walker (unit v_walk: every type node, at any depth, is offered exactly once, parent
// first, as it is when offered; children are kept). Their composition - the contract below - is assumed (closure
// conversion + accumulation of the per-node facts over the visit sequence) and cross-checked by the bounded oracles.

// one node: same name, ranges and arity; kind untouched unless it was Unresolved
spec fn node_resolved(o: ast::Type, n: ast::Type) -> bool
    decreases o
{
    &&& n.name == o.name && n.symbol_range == o.symbol_range && n.full_range == o.full_range
    &&& (!(o.kind is Unresolved) ==> n.kind == o.kind)
    &&& n.generic_types@.len() == o.generic_types@.len()
    &&& forall |i: int| 0 <= i < o.generic_types@.len() ==> node_resolved(#[trigger] o.generic_types@[i], n.generic_types@[i])
}

#[verifier::external_body]
fn resolve_types(
    ast: &mut ast::Aidl,
    imports: &HashSet<String>,
    declared_parcelables: &HashSet<String>,
    defined: &HashMap<String, ast::ResolvedItemKind>,
    diagnostics: &mut Vec<Diagnostic>,
) -> (r: HashSet<String>)
    ensures
        // only type nodes change, and only as the (proved) per-node step allows
        final(ast).package == old(ast).package && final(ast).imports == old(ast).imports && final(ast).declared_parcelables == old(ast).declared_parcelables,
        types_of(*final(ast)).len() == types_of(*old(ast)).len(),
        forall |k: int| 0 <= k < types_of(*old(ast)).len() ==> node_resolved(#[trigger] types_of(*old(ast))[k], types_of(*final(ast))[k]),
        all_arity_ok(types_of(*old(ast))) ==> all_arity_ok(types_of(*final(ast))),
        prefix_kept(old(diagnostics)@, final(diagnostics)@),
        // the `resolved` set: exactly the keys of the final type nodes (C05/C06 coupling)
        forall |k: int| 0 <= k < types_of(*final(ast)).len() ==> (match resolved_key(#[trigger] types_of(*final(ast))[k].kind) { Some(key) => r@.contains(string_of(key)), None => true }),
{ unimplemented!() }
