// TRUSTED: Display of the lexer token (used by class F sites in diagnostic.rs)
// lalrpop-util 0.19.8 src/lexer.rs: `impl Display for Token` writes self.1
impl<'input> VStr for lalrpop_util::lexer::Token<'input> {
    open spec fn vs_view(&self) -> Seq<char> { self.1@ }
    #[verifier::external_body] fn vs(&self) -> (r: &str) { self.1 }
}
