// TRUSTED STUB of the generated parser (src/aidl.lalrpop -> rules::aidl::OptAidlParser): DESIGN 3.3 / 7.
// Assumed: it returns normally for every input; it is a deterministic function of the text; the offsets it reports are
// boundaries inside the text; it never returns ParseError::User; a recovered item-level error (Ok(None)) has pushed an
// Error (the recovery actions call Diagnostic::from_error_recovery, proved in unit v_diag); the trees it builds respect
// the grammar's arities (Type constructors).
// Two of these clauses are the composition of facts PROVED per action in unit v_grammar (class G): each recovery action
// returns Ok(None) after pushing one Error; every Type action builds a node that respects the arities at every depth when
// its children do, every member / item action passes that on, and OptAidl concludes all_arity_ok(types_of(tree))
// (clauses C01.deep_arity_*, C01.tree_respects_arities). What stays assumed is that the parser is the bottom-up
// composition of its actions (each action's preconditions G.children_wf_* are the postconditions of the actions that
// produced its arguments).
pub uninterp spec fn spec_parse_ok(c: Seq<char>) -> bool;
pub uninterp spec fn spec_parse_tree(c: Seq<char>) -> Option<ast::Aidl>;
pub uninterp spec fn spec_parse_diags(c: Seq<char>) -> Seq<Diagnostic>;

pub mod rules {
    pub mod aidl {
        use crate::*;
        pub use crate::lalrpop_util::lexer::Token;
        pub struct OptAidlParser { pub _p: () }
        impl OptAidlParser {
            #[verifier::external_body]
            pub(crate) fn new() -> (r: Self) { unimplemented!() }

            #[verifier::external_body]
            pub(crate) fn parse<'input>(&self, lookup: &line_col::LineColLookup<'input>, diagnostics: &mut Vec<Diagnostic>, input: &'input str)
                -> (r: Result<Option<ast::Aidl>, ParseError<'input>>)
                requires lookup.text() == input@
                ensures
                    (r is Ok) == spec_parse_ok(input@),
                    r is Ok ==> r->Ok_0 == spec_parse_tree(input@),
                    final(diagnostics)@ =~= old(diagnostics)@ + spec_parse_diags(input@),
                    r is Err ==> !(r->Err_0 is User) && perr_pos_ok(lookup, r->Err_0),
                    r is Ok && r->Ok_0 is None ==> exists |i: int| 0 <= i < spec_parse_diags(input@).len() && #[trigger] spec_parse_diags(input@)[i].kind is Error,
                    r is Ok && r->Ok_0 is Some ==> all_arity_ok(types_of(r->Ok_0->0)),
            { unimplemented!() }
        }
    }
}
