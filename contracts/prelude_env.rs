// TRUSTED ENVIRONMENT STUBS -- signature-compatible stand-ins for external crates, with assumed contracts (DESIGN 3.3).
pub mod line_col {
    use super::*;
    // line-col 0.2.1: LineColLookup { src, line_heads }
    #[verifier::external_body]
    pub struct LineColLookup<'source> { src: &'source str }

    impl<'source> LineColLookup<'source> {
        // the text the table was built for
        pub uninterp spec fn text(&self) -> Seq<char>;
        // `index` may be given to get_by_cluster: it is <= len and sits on a char boundary
        // (the real function panics on index > len and slices src[line_start..index], which panics off a boundary)
        pub uninterp spec fn pos_ok(&self, index: usize) -> bool;
        // its (line, column) answer
        pub uninterp spec fn line_col_of(&self, index: usize) -> (usize, usize);

        #[verifier::external_body]
        pub fn new(src: &'source str) -> (r: Self)
            ensures r.text() == src@
        { unimplemented!() }

        #[verifier::external_body]
        pub fn get_by_cluster(&self, index: usize) -> (r: (usize, usize))
            requires self.pos_ok(index)
            ensures r == self.line_col_of(index)
        { unimplemented!() }
    }
}

