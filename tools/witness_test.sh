#!/bin/sh
# Generic witness finder: run one replay test file on a scratch copy of the current tree.
# usage: witness_test.sh <replay/file.rs> [extra scratch args...]   exit 3 = witness found (WITNESS lines printed)
cd "$(dirname "$0")/.."
f="$1"; shift
name=$(basename "$f" .rs)
out=$(python3 tools/scratch.py --test "$f" "$@" -- cargo test --offline --test "$name" 2>&1)
if printf "%s\n" "$out" | grep -q "^WITNESS"; then
  printf "%s\n" "$out" | grep "^WITNESS" | cut -c1-600 | head -20
  exit 3
fi
printf "%s\n" "$out" | grep -E "^test result|^error" | head -5
exit 0
