#!/usr/bin/env python3
"""grammar_crosscheck -- class G against lalrpop itself.

Builds a scratch copy of /repo (so that build.rs runs lalrpop on the current aidl.lalrpop), reads the generated parser
(OUT_DIR/aidl.rs) and checks, for every function tools/grammar.py renders, that lalrpop generated an action function with
  * the same return type,
  * the same bound parameters (name and type, in order; lalrpop passes each as the middle of a (start, value, end) triple), and
  * the same body (token for token).
Exit 0: every rendered function has its generated twin.  Exit 2: something differs (class G would not be what runs).
Usage: grammar_crosscheck.py <path to generated aidl.rs> [<path to aidl.lalrpop>]
"""
import re, sys, os
sys.path.insert(0, os.path.dirname(os.path.abspath(__file__)))
import grammar
from rsx import code_tokens, match_close


def norm_type(t):
    t = re.sub(r"\s+", "", t)
    t = t.replace("alloc::vec::Vec<", "Vec<").replace("core::option::Option<", "Option<").replace("__lalrpop_util::", "lalrpop_util::")
    return t


def toks_of(text):
    return [t[1] for t in code_tokens(text)]


def generated_actions(src):
    """-> list of dict(name, params [(name, type)], ret, body_tokens)"""
    res = []
    for m in re.finditer(r"\nfn (__action\d+)<", src):
        start = m.start() + 1
        toks = None
        # signature: find the parameter list '(' after the generics
        i = src.index(">(", m.end()) + 1
        depth, j = 0, i
        while True:
            c = src[j]
            if c == "(":
                depth += 1
            elif c == ")":
                depth -= 1
                if depth == 0:
                    break
            j += 1
        params_txt = src[i + 1:j]
        k = src.index("{", j)
        ret = src[j + 1:k].strip()
        ret = ret[2:].strip() if ret.startswith("->") else "()"
        # body
        depth, e = 0, k
        while True:
            c = src[e]
            if c == "{":
                depth += 1
            elif c == "}":
                depth -= 1
                if depth == 0:
                    break
            e += 1
        body = src[k:e + 1]
        params = []
        for pm in re.finditer(r"\(_, (\w+|mut \w+|_), _\): \(usize, (.*?), usize\),\n", params_txt):
            params.append((pm.group(1), pm.group(2)))
        res.append({"name": m.group(1), "params": params, "ret": ret, "body": toks_of(body)})
    return res


def main():
    gen = open(sys.argv[1], encoding="utf-8").read()
    lal = open(sys.argv[2] if len(sys.argv) > 2 else "/repo/src/aidl.lalrpop", encoding="utf-8").read()
    txt, meta = grammar.parse(lal)
    acts = generated_actions(gen)
    nts_param = {mm.group(1): mm.group(2) for mm in re.finditer(r"^\s*(?:pub(?:\(crate\))?\s+)?(\w+)<(\w+)>\s*:", lal, re.M)}
    bad = 0
    for fm in re.finditer(r"\nfn (g_\w+)<[^>]*>\((.*?)\) -> (.*?) (\{.*?\n)\n// layout|\nfn (g_\w+)<[^>]*>\((.*?)\) -> (.*?) (\{.*)\Z", "\n" + txt, re.S):
        name, params_txt, ret, body = (fm.group(1), fm.group(2), fm.group(3), fm.group(4)) if fm.group(1) else (fm.group(5), fm.group(6), fm.group(7), fm.group(8))
        m = meta[name]
        mine = []
        for e in m["layout"]:
            if e["name"]:
                mine.append((e["name"], e["type"]))
        # `mut` binders
        mine_named = []
        for (n, t) in mine:
            mm = re.search(r"\b(mut )?%s: " % re.escape(n), params_txt)
            mine_named.append((("mut " if mm and mm.group(1) else "") + n, t))
        want_ret = norm_type(ret)
        body_toks = toks_of(body)
        cands = []
        for a in acts:
            ap = [(n, norm_type(t)) for (n, t) in a["params"] if n != "_"]
            mp = [(n, norm_type(t)) for (n, t) in mine_named]
            tp = nts_param.get(m["nt"])
            def same(x, y):
                # a macro nonterminal is instantiated once per argument: its parameter stands for any type
                if tp is None:
                    return x == y
                return re.fullmatch(re.escape(y).replace(re.escape(tp), ".+"), x) is not None
            if len(ap) == len(mp) and all(an == mn and same(at, mt) for (an, at), (mn, mt) in zip(ap, mp)) and same(norm_type(a["ret"]), want_ret):
                # lalrpop wraps a brace action in one more block; compare modulo one outer `{ }`
                b = a["body"]
                if b == body_toks or (b[:1] == ["{"] and b[-1:] == ["}"] and b[1:-1] == body_toks) or (body_toks[:1] == ["{"] and body_toks[1:-1] == b[1:-1]):
                    cands.append(a["name"])
        if not cands:
            print("MISMATCH %s (%s alternative %d, line %d): no generated action with the same parameters, return type and body" % (name, m["nt"], m["alt"], m["line"]))
            bad += 1
        else:
            print("ok %s == %s" % (name, ",".join(cands)))
    print("GRAMMAR-CROSSCHECK functions=%d mismatches=%d" % (len(meta), bad))
    return 2 if bad else 0


if __name__ == "__main__":
    sys.exit(main())
