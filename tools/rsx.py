"""rsx -- mechanical extraction of Rust items from /repo/src by byte range.

The tokenizer understands comments (nested block comments), string / raw string /
byte string / char literals and lifetimes, so that brace matching and keyword
search never look inside literals or comments.  Everything the extractor returns
is a *verbatim byte range* of the source file; every later change to that text is
a declared, counted edit (see units.py).  Anything that is not found exactly as
declared raises LostAnchor, which the driver turns into exit 2 (UNDECIDED).
"""
import hashlib
import re


class LostAnchor(Exception):
    pass


IDENT_RE = re.compile(r"[A-Za-z_][A-Za-z0-9_]*")


def tokenize(src):
    """Return list of (kind, text, start, end). kinds: id, punct, str, char, life, num, comment, ws"""
    toks = []
    i, n = 0, len(src)
    while i < n:
        c = src[i]
        if c.isspace():
            j = i
            while j < n and src[j].isspace():
                j += 1
            toks.append(("ws", src[i:j], i, j))
            i = j
        elif src.startswith("//", i):
            j = src.find("\n", i)
            if j < 0:
                j = n
            toks.append(("comment", src[i:j], i, j))
            i = j
        elif src.startswith("/*", i):
            depth, j = 1, i + 2
            while j < n and depth:
                if src.startswith("/*", j):
                    depth += 1
                    j += 2
                elif src.startswith("*/", j):
                    depth -= 1
                    j += 2
                else:
                    j += 1
            toks.append(("comment", src[i:j], i, j))
            i = j
        elif c == '"' or (c in "br" and re.match(r'(b?r#*"|b")', src[i:i + 12])):
            m = re.match(r'(b?)(r?)(#*)"', src[i:])
            if m and m.group(2):  # raw string
                hashes = m.group(3)
                j = src.find('"' + hashes, i + len(m.group(0)))
                if j < 0:
                    raise LostAnchor("unterminated raw string")
                j += 1 + len(hashes)
            else:
                j = i + (len(m.group(0)) if m else 1)
                while j < n and src[j] != '"':
                    j += 2 if src[j] == "\\" else 1
                j += 1
            toks.append(("str", src[i:j], i, j))
            i = j
        elif c == "'":
            # char literal or lifetime
            m = re.match(r"'(\\.[^']*|[^\\'])'", src[i:])
            if m:
                j = i + len(m.group(0))
                toks.append(("char", src[i:j], i, j))
            else:
                m = IDENT_RE.match(src, i + 1)
                j = m.end() if m else i + 1
                toks.append(("life", src[i:j], i, j))
            i = j
        elif c.isalpha() or c == "_":
            m = IDENT_RE.match(src, i)
            toks.append(("id", m.group(0), i, m.end()))
            i = m.end()
        elif c.isdigit():
            m = re.match(r"[0-9][0-9A-Za-z_]*(\.[0-9][0-9A-Za-z_]*)?", src[i:])
            j = i + len(m.group(0))
            toks.append(("num", src[i:j], i, j))
            i = j
        else:
            toks.append(("punct", c, i, i + 1))
            i += 1
    return toks


def code_tokens(src):
    return [t for t in tokenize(src) if t[0] not in ("ws", "comment")]


OPEN = {"{": "}", "(": ")", "[": "]"}
CLOSE = {"}", ")", "]"}


def match_close(toks, k):
    """toks[k] is an opening bracket; return index of its closing bracket."""
    depth = 0
    for j in range(k, len(toks)):
        t = toks[j]
        if t[0] == "punct":
            if t[1] in OPEN:
                depth += 1
            elif t[1] in CLOSE:
                depth -= 1
                if depth == 0:
                    return j
    raise LostAnchor("unbalanced bracket")


class Item:
    def __init__(self, file, src, start, end, sig_start, body_open, kind, name):
        self.file = file
        self.start, self.end = start, end          # whole item incl. attributes / docs
        self.sig_start = sig_start                  # first token after attributes (vis / fn / struct ...)
        self.body_open = body_open                  # offset of the '{' opening the body (or None)
        self.kind, self.name = kind, name
        self.src = src

    @property
    def text(self):
        return self.src[self.start:self.end]

    @property
    def attrs(self):
        return self.src[self.start:self.sig_start]

    @property
    def sig(self):
        return self.src[self.sig_start:self.body_open].rstrip()

    @property
    def body(self):
        return self.src[self.body_open:self.end]

    def lines(self):
        a = self.src.count("\n", 0, self.sig_start) + 1
        b = self.src.count("\n", 0, self.end) + 1
        return a, b

    def sha(self):
        return hashlib.sha256(self.src[self.sig_start:self.end].encode()).hexdigest()


ITEM_KW = {"fn", "struct", "enum", "impl", "trait", "mod", "type", "const", "static", "use", "macro_rules"}
PREFIX_KW = {"pub", "unsafe", "async", "extern", "default"}


def _items_in(src, toks, lo, hi, file):
    """Enumerate items among toks[lo:hi] (all at the same nesting level)."""
    items = []
    k = lo
    while k < hi:
        start_k = k
        # attributes
        while k < hi and toks[k][1] == "#":
            k2 = k + 1
            if toks[k2][1] == "!":
                k2 += 1
            if toks[k2][1] != "[":
                break
            k = match_close(toks, k2) + 1
        sig_k = k
        # visibility etc.
        while k < hi and toks[k][0] == "id" and toks[k][1] in PREFIX_KW:
            k += 1
            if k < hi and toks[k][1] == "(" and toks[k - 1][1] == "pub":
                k = match_close(toks, k) + 1
        if k >= hi:
            break
        kw = toks[k][1]
        if toks[k][0] != "id" or kw not in ITEM_KW:
            # not an item (stray token); skip one token
            k = start_k + 1
            continue
        # find end: first '{' at depth 0 -> matching close; or ';'
        j = k
        end_k = None
        body_open = None
        while j < hi:
            t = toks[j]
            if t[0] == "punct":
                if t[1] == ";":
                    end_k = j
                    break
                if t[1] == "{":
                    body_open = t[2]
                    end_k = match_close(toks, j)
                    break
                if t[1] in "([":
                    j = match_close(toks, j)
            j += 1
        if end_k is None:
            raise LostAnchor("item without end in %s" % file)
        if kw == "macro_rules":
            name = toks[k + 2][1]
        elif kw == "impl":
            # name = text between impl and '{' , normalised
            name = " ".join(t[1] for t in toks[k + 1:j] if True)
            name = re.sub(r"\s*<\s*", "<", name)
            name = re.sub(r"\s*>\s*", ">", name)
            name = re.sub(r"\s*::\s*", "::", name.replace(": :", "::"))
        else:
            name = toks[k + 1][1] if k + 1 < hi else ""
        # leading doc comments are not tokens here (comments stripped) -- start at the attribute/sig token
        it = Item(file, src, toks[start_k][2], toks[end_k][3], toks[sig_k][2], body_open, kw, name)
        it._tok_range = (start_k, end_k)
        it._body_tok = j if body_open is not None else None
        items.append(it)
        k = end_k + 1
    return items


def _impl_header(name):
    """Normalise an impl header for matching: drop generic params and where clauses."""
    s = name
    s = re.sub(r"\bwhere\b.*$", "", s).strip()
    # drop leading generics  impl<ID> Parser<ID>  ->  Parser<ID>
    s = re.sub(r"^<[^>]*>\s*", "", s)
    s = re.sub(r"\s+", " ", s)
    return s


class SourceFile:
    def __init__(self, path, relname, text=None):
        self.path, self.rel = path, relname
        self.src = open(path, encoding="utf-8").read() if text is None else text
        self.toks = code_tokens(self.src)
        self.items = _items_in(self.src, self.toks, 0, len(self.toks), relname)

    def find(self, spec):
        """spec: 'fn name' | 'struct Name' | 'enum Name' | 'impl Header' | 'impl Header::fn name' | 'mod m::fn name'"""
        parts = spec.split("::fn ")
        head = parts[0].strip()
        kw, _, nm = head.partition(" ")
        cands = []
        for it in self.items:
            if it.kind != kw:
                continue
            if kw == "impl":
                if _impl_header(it.name).replace(" ", "") == nm.replace(" ", ""):
                    cands.append(it)
            elif it.name == nm:
                cands.append(it)
        if len(cands) != 1:
            raise LostAnchor("%s: item `%s` found %d times" % (self.rel, head, len(cands)))
        it = cands[0]
        if len(parts) == 1:
            return it
        # nested fn inside impl / mod
        a, b = it._body_tok, it._tok_range[1]
        inner = _items_in(self.src, self.toks, a + 1, b, self.rel)
        c2 = [x for x in inner if x.kind == "fn" and x.name == parts[1].strip()]
        if len(c2) != 1:
            raise LostAnchor("%s: `%s` found %d times" % (self.rel, spec, len(c2)))
        c2[0].parent = it
        return c2[0]

    def impl_members(self, it):
        a, b = it._body_tok, it._tok_range[1]
        return _items_in(self.src, self.toks, a + 1, b, self.rel)


def strip_comments(text):
    """Remove comments (used only for the text shown to Verus where doc comments carry no meaning)."""
    out = []
    for k, t, a, b in tokenize(text):
        if k == "comment":
            # keep newlines so that line numbers inside the item stay aligned
            out.append("\n" * t.count("\n"))
        else:
            out.append(t)
    return "".join(out)


def find_token_seq(text, needle):
    """All start offsets where `needle` occurs in `text` on token boundaries outside literals/comments."""
    ntoks = [t[1] for t in code_tokens(needle)]
    toks = code_tokens(text)
    res = []
    for i in range(len(toks) - len(ntoks) + 1):
        if all(toks[i + j][1] == ntoks[j] for j in range(len(ntoks))):
            res.append((toks[i][2], toks[i + len(ntoks) - 1][3]))
    return res
