#!/usr/bin/env python3
"""scratch -- run something against a throw-away copy of /repo's current working tree.

  scratch.py [--test FILE]... [--dev-dep 'name = "ver"']... [--append MODFILE:SRCFILE]... -- <command...>

The copy lives under a fresh temp dir (removed afterwards, together with nothing else: build output goes to
/verif/work/target-scratch so that dependencies are compiled once).  Nothing is ever written to /repo.
"""
import os, shutil, subprocess, sys, tempfile

VERIF = os.path.dirname(os.path.dirname(os.path.abspath(__file__)))
REPO = os.environ.get("VERIF_REPO", "/repo")


def make_copy():
    d = tempfile.mkdtemp(prefix="verif-scratch-")
    dst = os.path.join(d, "repo")
    shutil.copytree(REPO, dst, ignore=shutil.ignore_patterns("target", ".git"))
    return d, dst


def main():
    a = sys.argv[1:]
    tests, deps, appends = [], [], []
    while a and a[0] != "--":
        if a[0] == "--test":
            tests.append(a[1]); a = a[2:]
        elif a[0] == "--dev-dep":
            deps.append(a[1]); a = a[2:]
        elif a[0] == "--append":
            appends.append(a[1]); a = a[2:]
        else:
            print("bad arg", a[0]); return 2
    cmd = a[1:]
    d, dst = make_copy()
    try:
        for t in tests:
            shutil.copy(t, os.path.join(dst, "tests", os.path.basename(t)))
        if deps:
            with open(os.path.join(dst, "Cargo.toml"), "a") as f:
                f.write("\n" + "\n".join(deps) + "\n")
        for ap in appends:
            src_rel, mod_file = ap.split(":", 1)
            name = os.path.splitext(os.path.basename(mod_file))[0]
            shutil.copy(mod_file, os.path.join(dst, os.path.dirname(src_rel), name + ".rs"))
            with open(os.path.join(dst, src_rel), "a") as f:
                f.write("\n#[cfg(any(test, kani))]\n#[path = \"%s.rs\"]\nmod %s;\n" % (name, name))
        env = dict(os.environ, CARGO_TARGET_DIR=os.environ.get("VERIF_SCRATCH_TARGET", os.path.join(VERIF, "work", "target-scratch")),
                   CARGO_NET_OFFLINE="true", VERIF_SCRATCH=dst)
        p = subprocess.run(cmd, cwd=dst, env=env)
        return p.returncode
    finally:
        shutil.rmtree(d, ignore_errors=True)


if __name__ == "__main__":
    sys.exit(main())
