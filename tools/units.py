"""units -- assemble one Verus file per verification unit from /repo's current sources.

A unit (contracts/units/<name>.toml) names the items to extract, the declared edit
sites (closed list of classes, see DESIGN 3.1) and the contract clauses with
their property tags.  The assembler returns the generated text together with a
line map (generated line -> origin) and a provenance record.
"""
import os
import re
import tomllib

from rsx import LostAnchor, SourceFile, code_tokens, match_close, strip_comments, find_token_seq

VERIF = os.path.dirname(os.path.dirname(os.path.abspath(__file__)))
REPO = os.environ.get("VERIF_REPO", "/repo")
EDIT_CLASSES = {"X", "T", "A", "S", "F", "P", "D", "L", "V", "I", "G"}


class Emitter:
    def __init__(self):
        self.chunks = []
        self.line = 1
        self.map = {}      # line -> origin dict

    def emit(self, text, origin=None, per_line=None):
        if not text.endswith("\n"):
            text += "\n"
        n = text.count("\n")
        for k in range(n):
            o = per_line(k) if per_line else origin
            if o is not None:
                self.map[self.line + k] = o
        self.chunks.append(text)
        self.line += n

    def text(self):
        return "".join(self.chunks)


def _strip_attrs(text, prov, keep_derive=False):
    """class X: drop #[derive], #[serde], #[allow], doc attributes; return (text, derives)"""
    toks = code_tokens(text)
    out, derives = [], []
    cut = []
    k = 0
    while k < len(toks):
        if toks[k][1] == "#" and k + 1 < len(toks) and toks[k + 1][1] == "[":
            e = match_close(toks, k + 1)
            head = toks[k + 2][1]
            if head == "derive" and keep_derive:
                k = e + 1
                continue
            if head in ("derive", "serde", "allow", "doc", "inline", "cfg_attr"):
                if head == "derive":
                    derives += [t[1] for t in toks[k + 4:e - 1] if t[0] == "id"]
                cut.append((toks[k][2], toks[e][3]))
                prov.append({"cls": "X", "what": "drop attribute", "text": text[toks[k][2]:toks[e][3]]})
            k = e + 1
        else:
            k += 1
    res, pos = [], 0
    for a, b in cut:
        res.append(text[pos:a])
        pos = b
    res.append(text[pos:])
    return "".join(res), derives


def apply_edits(text, edits, where, prov):
    for e in edits or []:
        cls = e["cls"]
        if cls not in EDIT_CLASSES:
            raise LostAnchor("%s: unknown edit class %s" % (where, cls))
        if "find_re" in e:
            rx = re.compile(e["find_re"])
            got = len(rx.findall(text))
            count = e.get("count", 1)
            if count == -1 and got >= 1:
                count = got        # "every occurrence, at least one" (recorded with the number found)
            if got != count:
                raise LostAnchor("%s: declared %s-site /%s/ found %d times, expected %d" % (where, cls, e["find_re"][:60], got, count))
            sites = [m.group(0) for m in rx.finditer(text)]
            text = rx.sub(e["replace"], text)
            prov.append({"cls": cls, "find_re": e["find_re"], "sites": sites, "replace": e["replace"], "count": count, "why": e.get("why", "")})
            continue
        find, repl, count = e["find"], e["replace"], e.get("count", 1)
        got = text.count(find)
        if e.get("optional") and got == 0:
            # the construct this shim is for is absent: nothing to route (the code then stands as it is)
            continue
        if count == -1 and got >= 1:
            count = got
        if got != count:
            raise LostAnchor("%s: declared %s-site `%s` found %d times, expected %d" % (where, cls, find.strip()[:60], got, count))
        text = text.replace(find, repl)
        prov.append({"cls": cls, "find": find, "replace": repl, "count": count, "why": e.get("why", "")})
    return text


VSTR_TRAIT = """
// class F support (trusted): Display of String / str is the string itself
pub trait VStr {
    spec fn vs_view(&self) -> Seq<char>;
    fn vs(&self) -> (r: &str) ensures r@ == self.vs_view();
}
impl VStr for String {
    open spec fn vs_view(&self) -> Seq<char> { self@ }
    #[verifier::external_body] fn vs(&self) -> (r: &str) { self.as_str() }
}
impl VStr for str {
    open spec fn vs_view(&self) -> Seq<char> { self@ }
    #[verifier::external_body] fn vs(&self) -> (r: &str) { self }
}
"""


def fmt_shim(pattern):
    """class F shim for one piece pattern, e.g. 'ala': body is the same format! call on the same pieces."""
    ps = ["%s%d: &str" % (c, i) for i, c in enumerate(pattern)]
    ens = " + ".join("%s%d@" % (c, i) for i, c in enumerate(pattern))
    args = ", ".join("%s%d" % (c, i) for i, c in enumerate(pattern))
    return ("#[verifier::external_body] pub fn vfmt_%s(%s) -> (r: String) ensures r@ == %s { format!(\"%s\", %s) }"
            % (pattern, ", ".join(ps), ens, "{}" * len(pattern), args))


def auto_format(body, where, prov, patterns):
    """class F: rewrite every format!(LIT, args..) with plain {} / {ident} placeholders into vfmt_<pattern>(pieces)."""
    toks = code_tokens(body)
    out, pos = [], 0
    k = 0
    while k < len(toks) - 2:
        if toks[k][1] == "format" and toks[k + 1][1] == "!" and toks[k + 2][1] == "(":
            e = match_close(toks, k + 2)
            lit = toks[k + 3]
            if lit[0] != "str" or not lit[1].startswith('"'):
                raise LostAnchor("%s: format! without plain literal" % where)
            content = lit[1][1:-1]
            if "{{" in content or "}}" in content:
                raise LostAnchor("%s: format! with escaped braces" % where)
            # split args on top-level commas
            args, cur, j = [], [], k + 4
            while j < e:
                t = toks[j]
                if t[0] == "punct" and t[1] in "([{":
                    j2 = match_close(toks, j)
                    cur.append(body[t[2]:toks[j2][3]])
                    j = j2 + 1
                    continue
                if t[1] == "," and t[0] == "punct":
                    if cur:
                        args.append(cur)
                    cur = []
                else:
                    cur.append((t[2], t[3]))
                j += 1
            if cur:
                args.append(cur)

            def arg_text(parts):
                a = parts[0][0] if isinstance(parts[0], tuple) else None
                # reconstruct by source span from first to last piece
                first = parts[0]
                last = parts[-1]
                st = first[0] if isinstance(first, tuple) else body.index(first)
                return None
            # simpler: recompute arg source spans from token offsets
            spans, start, depth = [], None, 0
            j = k + 4
            while j < e:
                t = toks[j]
                if t[0] == "punct" and t[1] in "([{":
                    if start is None:
                        start = t[2]
                    j = match_close(toks, j) + 1
                    endp = toks[j - 1][3]
                    last_end = endp
                    continue
                if t[0] == "punct" and t[1] == ",":
                    if start is not None:
                        spans.append(body[start:last_end])
                    start = None
                else:
                    if start is None:
                        start = t[2]
                    last_end = t[3]
                j += 1
            if start is not None:
                spans.append(body[start:last_end])
            pieces, pat, ai = [], "", 0
            for m in re.split(r"(\{[^}]*\})", content):
                if m.startswith("{") and m.endswith("}"):
                    inner = m[1:-1]
                    if inner == "":
                        if ai >= len(spans):
                            raise LostAnchor("%s: format! placeholder without argument" % where)
                        pieces.append("(%s).vs()" % spans[ai])
                        ai += 1
                    elif re.fullmatch(r"[A-Za-z_][A-Za-z0-9_]*", inner):
                        pieces.append("(%s).vs()" % inner)
                    else:
                        raise LostAnchor("%s: unsupported format placeholder {%s}" % (where, inner))
                    pat += "a"
                elif m != "":
                    pieces.append('"%s"' % m)
                    pat += "l"
            if ai != len(spans):
                raise LostAnchor("%s: format! argument count mismatch" % where)
            if not pat:
                pieces, pat = ['""'], "l"
            patterns.add(pat)
            out.append(body[pos:toks[k][2]])
            out.append("vfmt_%s(%s)" % (pat, ", ".join(pieces)))
            prov.append({"cls": "F", "find": body[toks[k][2]:toks[e][3]], "replace": out[-1]})
            pos = toks[e][3]
            k = e + 1
        else:
            k += 1
    out.append(body[pos:])
    return "".join(out)


def closure_contracts(body, specs, where, prov):
    """class A: give the k-th closure literal `|params|` a typed header and an ensures; wrap an expression body in a block."""
    for cs in specs or []:
        hits = find_token_seq(body, cs["params"])
        want = cs.get("count", 1)
        if len(hits) != want:
            raise LostAnchor("%s: closure `%s` found %d times, expected %d" % (where, cs["params"], len(hits), want))
        idx = cs.get("index", 0)
        a, b = hits[idx]
        toks = code_tokens(body)
        # body of the closure: from b to the delimiter that closes the enclosing call argument
        k = next(i for i, t in enumerate(toks) if t[2] >= b)
        if toks[k][1] == "{":
            e = match_close(toks, k)
            end = toks[e][3]
            inner = body[toks[k][2]:end]
            is_block = True
        else:
            j = k
            while j < len(toks):
                t = toks[j]
                if t[0] == "punct" and t[1] in "([{":
                    j = match_close(toks, j) + 1
                    continue
                if t[0] == "punct" and t[1] in ")]},;":
                    break
                j += 1
            end = toks[j - 1][3]
            inner = body[toks[k][2]:end]
            is_block = False
        ens = ", ".join(x.strip().rstrip(",") for x in cs["ensures"])
        req = (" requires " + ", ".join(cs["requires"])) if cs.get("requires") else ""
        if cs.get("hoist"):
            # class P: the parameter pattern becomes an identifier plus a `let PATTERN = ident;` as first statement
            inner = "{ " + cs["hoist"] + " " + (inner[1:] if is_block else inner + " }")
            is_block = True
            prov.append({"cls": "P", "what": "closure parameter pattern hoisted: " + cs["hoist"]})
        if cs.get("top"):
            # ghost hints as the first statements of the closure body
            if not is_block:
                inner, is_block = "{ " + inner + " }", True
            inner = "{ " + cs["top"].strip() + " " + inner[1:]
        new = "%s%s ensures %s %s" % (cs["typed"], req, ens, inner if is_block else "{ " + inner + " }")
        body = body[:a] + new + body[end:]
        prov.append({"cls": "A", "what": "closure contract on `%s`" % cs["params"], "text": cs["typed"] + " ensures " + ens})
    return body


def fn_locals(sig, body_before):
    """Names bound by the enclosing function before the call: parameters and `let [mut] x` bindings."""
    names = set()
    toks = code_tokens(sig)
    for i, t in enumerate(toks):
        if t[0] == "id" and i + 1 < len(toks) and toks[i + 1][1] == ":" and toks[i - 1][1] in ("(", ",", "mut"):
            names.add(t[1])
    toks = code_tokens(body_before)
    for i, t in enumerate(toks):
        if t[0] == "id" and t[1] == "let":
            j = i + 1
            if toks[j][1] == "mut":
                j += 1
            if toks[j][0] == "id":
                names.add(toks[j][1])
    return names


def lift_closure(sig, body, lift, where, prov):
    """class L: lambda-lift the closure handed to a walker; the call is replaced by a loop over the walker's
    contract sequence. Returns (new_body_of_enclosing_fn, lifted_fn_sig, lifted_fn_body)."""
    hits = find_token_seq(body, lift["call"])
    if len(hits) != 1:
        raise LostAnchor("%s: walker call `%s` found %d times" % (where, lift["call"], len(hits)))
    a, b = hits[0]
    toks = code_tokens(body)
    k = next(i for i, t in enumerate(toks) if t[2] >= b)
    # closure literal: |params| { body }
    if toks[k][1] != "|":
        raise LostAnchor("%s: no closure literal after `%s`" % (where, lift["call"]))
    j = k + 1
    while toks[j][1] != "|":
        j += 1
    params = body[toks[k][2]:toks[j][3]]
    if re.sub(r"\s+", "", params) != re.sub(r"\s+", "", lift["closure_params"]):
        raise LostAnchor("%s: closure parameters are `%s`, declared `%s`" % (where, params, lift["closure_params"]))
    ret_ty = None
    if toks[j + 1][1] == "-" and toks[j + 2][1] == ">":
        # annotated closure return type: `|x| -> T { .. }`
        b0 = j + 3
        depth = 0
        while not (toks[b0][1] == "{" and depth == 0):
            if toks[b0][1] == "<":
                depth += 1
            elif toks[b0][1] == ">":
                depth -= 1
            b0 += 1
        ret_ty = body[toks[j + 3][2]:toks[b0 - 1][3]]
        j = b0 - 1
    if toks[j + 1][1] != "{":
        if not lift.get("expr_body"):
            raise LostAnchor("%s: closure body is not a block" % where)
        # expression body up to the closing paren of the call
        e = j + 1
        while not (toks[e][0] == "punct" and toks[e][1] == ")"):
            if toks[e][0] == "punct" and toks[e][1] in "([{":
                e = match_close(toks, e)
            e += 1
        cbody = "{ " + body[toks[j + 1][2]:toks[e - 1][3]] + "; }"
        close_tok = e
    else:
        e = match_close(toks, j + 1)
        cbody = body[toks[j + 1][2]:toks[e][3]]
        close_tok = e + 1
    if toks[close_tok][1] != ")":
        raise LostAnchor("%s: walker call does not end after the closure" % where)
    end = toks[close_tok][3]
    if body[end:end + 1] == ";":
        end += 1
    # capture check: free identifiers of the closure that are locals/params of the enclosing fn
    locs = fn_locals(sig, body[:a])
    pnames = set(t[1] for t in code_tokens(params) if t[0] == "id")
    used = set(t[1] for t in code_tokens(cbody) if t[0] == "id")
    caps = sorted((used & locs) - pnames)
    if caps != sorted(lift["captures"]):
        raise LostAnchor("%s: closure captures %s, unit declares %s" % (where, caps, sorted(lift["captures"])))
    # captured locals become `&mut T` parameters: every occurrence of such a variable is rewritten to the place `(*v)`
    # (type-preserving, no per-site declaration); field names `.v` / `v:` are not occurrences of the variable
    derefs = set(lift.get("deref", []))
    if derefs:
        ctoks = code_tokens(cbody)
        out, pos, n_sites = [], 0, 0
        for i, t in enumerate(ctoks):
            if t[0] == "id" and t[1] in derefs:
                prev = ctoks[i - 1][1] if i > 0 else ""
                nxt = ctoks[i + 1][1] if i + 1 < len(ctoks) else ""
                nxt2 = ctoks[i + 2][1] if i + 2 < len(ctoks) else ""
                if prev == "." or (nxt == ":" and nxt2 != ":"):
                    continue
                out.append(cbody[pos:t[2]])
                out.append("(*%s)" % t[1])
                pos = t[3]
                n_sites += 1
        out.append(cbody[pos:])
        cbody = "".join(out)
        prov.append({"cls": "L", "what": "captured locals %s rewritten to the place `(*v)` at %d occurrences" % (sorted(derefs), n_sites)})
    lifted_sig = "fn %s%s(%s, %s)%s" % (lift["name"], lift.get("generics", ""), lift["param"],
                                      ", ".join("%s: %s" % (c, lift["capture_types"][c]) for c in lift["captures"]),
                                      (" -> " + ret_ty) if ret_ty else "")
    new_body = body[:a] + lift["loop"].rstrip() + "\n" + body[end:]
    prov.append({"cls": "L", "what": "closure handed to `%s` lifted to fn %s; captures %s; call replaced by a loop over the walker contract"
                 % (lift["call"].strip(), lift["name"], caps)})
    return new_body, lifted_sig, cbody


def desugar_folds(body, count, where, prov):
    """class D: `let N: T = ITER.fold(INIT, |mut ACC, X| { ...; ACC });`  becomes
       `let N: T = { let mut ACC: T = INIT; for X in ITER { ... } ACC };`   (definition of Iterator::fold)."""
    done = 0
    while True:
        toks = code_tokens(body)
        k = next((i for i, t in enumerate(toks) if t[1] == "fold" and toks[i - 1][1] == "." and toks[i + 1][1] == "("), None)
        if k is None:
            break
        # enclosing `let NAME: TYPE =`
        j = k
        depth = 0
        while j >= 0:
            t = toks[j]
            if t[0] == "punct" and t[1] in ")]}":
                depth += 1
            elif t[0] == "punct" and t[1] in "([{":
                depth -= 1
            if t[1] == "=" and depth == 0 and not (toks[j + 1][1] in "=>" and toks[j + 1][2] == t[3]) and not (toks[j - 1][1] in "=!<>" and toks[j - 1][3] == t[2]):
                break
            j -= 1
        eq = j
        l = eq
        while toks[l][1] != "let":
            l -= 1
        colon = next(i for i in range(l, eq) if toks[i][1] == ":")
        ty = body[toks[colon + 1][2]:toks[eq - 1][3]]
        iter_txt = body[toks[eq + 1][2]:toks[k - 2][3]]
        op = k + 1
        cl = match_close(toks, op)
        if toks[cl + 1][1] != ";":
            raise LostAnchor("%s: fold is not the whole let initialiser" % where)
        # args: INIT , |mut ACC, X| { BODY }
        a = op + 1
        c = a
        while not (toks[c][1] == "," and toks[c][0] == "punct"):
            if toks[c][0] == "punct" and toks[c][1] in "([{":
                c = match_close(toks, c)
            c += 1
        init = body[toks[a][2]:toks[c - 1][3]]
        if toks[c + 1][1] != "|" or toks[c + 2][1] != "mut":
            raise LostAnchor("%s: fold closure is not `|mut ACC, X|`" % where)
        acc = toks[c + 3][1]
        if toks[c + 4][1] != "," or toks[c + 6][1] != "|":
            raise LostAnchor("%s: fold closure parameters not of the form |mut ACC, X|" % where)
        x = toks[c + 5][1]
        b0 = c + 7
        if toks[b0][1] != "{":
            raise LostAnchor("%s: fold closure body is not a block" % where)
        b1 = match_close(toks, b0)
        if b1 + 1 != cl:
            raise LostAnchor("%s: fold closure is not the last argument" % where)
        inner_toks = toks[b0 + 1:b1]
        # tail expression must be ACC
        if inner_toks[-1][1] != acc or inner_toks[-2][1] not in ("}", ";"):
            raise LostAnchor("%s: fold closure does not end in `%s`" % (where, acc))
        inner = body[toks[b0][3]:inner_toks[-1][2]]
        # side conditions
        for t in inner_toks:
            if t[0] == "id" and t[1] in ("break", "continue") or t[1] == "?":
                raise LostAnchor("%s: fold closure contains %s" % (where, t[1]))
        n_ret = len(re.findall(r"\breturn\b", strip_comments(inner)))
        n_ret_acc = len(re.findall(r"\breturn\s+%s\s*;" % re.escape(acc), inner))
        if n_ret != n_ret_acc:
            raise LostAnchor("%s: fold closure has a `return` other than `return %s;`" % (where, acc))
        inner = re.sub(r"\breturn\s+%s\s*;" % re.escape(acc), "continue;", inner)
        new = "{\n        let mut %s: %s = %s;\n        for %s in %s {%s}\n        %s\n    };" % (acc, ty, init, x, iter_txt, inner, acc)
        prov.append({"cls": "D", "what": "Iterator::fold desugared to a for loop", "iter": iter_txt.strip(), "acc": acc, "elem": x,
                     "returns_rewritten_to_continue": n_ret_acc})
        body = body[:toks[eq + 1][2]] + new + body[toks[cl + 1][3]:]
        done += 1
    if done != count:
        raise LostAnchor("%s: %d fold sites desugared, unit declares %d" % (where, done, count))
    return body


def desugar_map_collect_sets(body, count, where, prov):
    """class D: `let N: HashSet<T> = ITER.map(|X| E).collect();` becomes
       `let N: HashSet<T> = { let mut acc: HashSet<T> = HashSet::new(); for X in ITER { acc.insert(E); } acc };`
       (FromIterator for HashSet inserts every item)."""
    done = 0
    while True:
        toks = code_tokens(body)
        k = None
        for i, t in enumerate(toks):
            if t[1] == "collect" and toks[i - 1][1] == "." and toks[i + 1][1] == "(" and toks[i + 2][1] == ")" and toks[i + 3][1] == ";":
                # preceded by .map( closure )
                if toks[i - 2][1] == ")":
                    k = i
                    break
        if k is None:
            break
        # find matching '(' of the map call
        depth, j = 0, k - 2
        while True:
            if toks[j][1] in ")]}" and toks[j][0] == "punct":
                depth += 1
            elif toks[j][1] in "([{" and toks[j][0] == "punct":
                depth -= 1
                if depth == 0:
                    break
            j -= 1
        if toks[j - 1][1] != "map" or toks[j - 2][1] != ".":
            raise LostAnchor("%s: collect() not preceded by .map(..)" % where)
        mp = j - 1
        if not (toks[j + 1][1] == "|" and toks[j + 3][1] == "|" and toks[j + 2][0] == "id"):
            raise LostAnchor("%s: map closure is not `|x| expr`" % where)
        x = toks[j + 2][1]
        expr = body[toks[j + 4][2]:toks[k - 3][3]]
        # enclosing let
        e = mp - 2
        depth = 0
        while e >= 0:
            t = toks[e]
            if t[0] == "punct" and t[1] in ")]}":
                depth += 1
            elif t[0] == "punct" and t[1] in "([{":
                depth -= 1
            if t[1] == "=" and depth == 0 and not (toks[e + 1][1] in "=>" and toks[e + 1][2] == t[3]) and not (toks[e - 1][1] in "=!<>" and toks[e - 1][3] == t[2]):
                break
            e -= 1
        l = e
        while toks[l][1] != "let":
            l -= 1
        colon = next(i for i in range(l, e) if toks[i][1] == ":")
        ty = body[toks[colon + 1][2]:toks[e - 1][3]]
        if not ty.replace(" ", "").startswith("HashSet<"):
            raise LostAnchor("%s: map/collect target is `%s`, only HashSet is handled" % (where, ty))
        iter_txt = body[toks[e + 1][2]:toks[mp - 2][3]]
        new = "{\n        let mut acc: %s = HashSet::new();\n        for %s in %s {\n            acc.insert(%s);\n        }\n        acc\n    };" % (ty, x, iter_txt, expr)
        prov.append({"cls": "D", "what": "ITER.map(|x| e).collect::<HashSet<_>>() desugared to an inserting for loop", "iter": re.sub(r"\s+", "", iter_txt), "expr": expr})
        body = body[:toks[e + 1][2]] + new + body[toks[k + 3][3]:]
        done += 1
    if done != count:
        raise LostAnchor("%s: %d map/collect sites desugared, unit declares %d" % (where, done, count))
    return body


def desugar_iter_mut_filter_map_for_each(body, where, prov):
    """class D: `RECV.iter_mut().filter_map(|X| match X { P1 => None, P2 => Some(Z), .. }).for_each(|Y| BLOCK);` becomes
       `{ let n = RECV.len(); let mut k = 0; while k < n { match &mut RECV[k] { P1 => (), P2 => { let Y = Z; BLOCK } } k += 1; } }`
       (each element visited once, in order, by mutable reference; filter_map keeps the Some(..) ones)."""
    toks = code_tokens(body)
    k = next((i for i, t in enumerate(toks) if t[1] == "iter_mut" and toks[i - 1][1] == "." and toks[i + 1][1] == "("), None)
    if k is None:
        raise LostAnchor("%s: no iter_mut() chain" % where)
    # receiver: tokens back to the start of the statement
    j = k - 2
    while j >= 0 and not (toks[j][0] == "punct" and toks[j][1] in ";{}"):
        j -= 1
    recv = re.sub(r"\s+", "", body[toks[j + 1][2]:toks[k - 2][3]])
    stmt_start = toks[j + 1][2]
    c = k + 3  # after iter_mut ( )
    if not (toks[c][1] == "." and toks[c + 1][1] == "filter_map" and toks[c + 2][1] == "("):
        raise LostAnchor("%s: iter_mut() not followed by .filter_map(" % where)
    fm_close = match_close(toks, c + 2)
    f = c + 3
    if not (toks[f][1] == "|" and toks[f + 2][1] == "|" and toks[f + 3][1] == "match" and toks[f + 4][1] == toks[f + 1][1] and toks[f + 5][1] == "{"):
        raise LostAnchor("%s: filter_map closure is not `|x| match x {..}`" % where)
    arms_close = match_close(toks, f + 5)
    if arms_close + 1 != fm_close:
        raise LostAnchor("%s: filter_map closure has more than the match" % where)
    # arms
    arms, a = [], f + 6
    while a < arms_close:
        b = a
        while not (toks[b][1] == "=" and toks[b + 1][1] == ">"):
            if toks[b][0] == "punct" and toks[b][1] in "([{":
                b = match_close(toks, b)
            b += 1
        pat = body[toks[a][2]:toks[b - 1][3]]
        e = b + 2
        if toks[e][1] == "None":
            arms.append((pat, None)); nxt = e + 1
        elif toks[e][1] == "Some" and toks[e + 1][1] == "(":
            ce = match_close(toks, e + 1)
            arms.append((pat, body[toks[e + 2][2]:toks[ce - 1][3]])); nxt = ce + 1
        else:
            raise LostAnchor("%s: filter_map arm is neither None nor Some(..)" % where)
        if toks[nxt][1] == ",":
            nxt += 1
        a = nxt
    g = fm_close + 1
    if not (toks[g][1] == "." and toks[g + 1][1] == "for_each" and toks[g + 2][1] == "(" and toks[g + 3][1] == "|" and toks[g + 5][1] == "|" and toks[g + 6][1] == "{"):
        raise LostAnchor("%s: filter_map not followed by .for_each(|y| {..})" % where)
    y = toks[g + 4][1]
    blk_close = match_close(toks, g + 6)
    fe_close = match_close(toks, g + 2)
    if blk_close + 1 != fe_close or toks[fe_close + 1][1] != ";":
        raise LostAnchor("%s: for_each closure is not the whole argument / statement" % where)
    block = body[toks[g + 6][2]:toks[blk_close][3]]
    for t in toks[g + 7:blk_close]:
        if t[0] == "id" and t[1] in ("return", "break", "continue") or t[1] == "?":
            raise LostAnchor("%s: for_each closure contains %s" % (where, t[1]))
    arm_txt = "\n".join("            %s => %s," % (pat, "()" if z is None else "{ let %s = %s; %s }" % (y, z, block)) for pat, z in arms)
    new = ("{\n        let n_d4 = %s.len();\n        let mut k_d4: usize = 0;\n        while k_d4 < n_d4 {\n            match &mut %s[k_d4] {\n%s\n            }\n            k_d4 += 1;\n        }\n    }"
           % (recv, recv, arm_txt))
    prov.append({"cls": "D", "what": "iter_mut().filter_map(match).for_each(block) desugared to an index loop over `%s`" % recv, "arms": [p_ for p_, _ in arms]})
    return body[:stmt_start] + new + body[toks[fe_close + 1][3]:]


def desugar_for_each(body, count, where, prov):
    """class D: `RECV.iter().for_each(|X| BODY)` becomes `for X in RECV.iter() { BODY }` (definition of Iterator::for_each).
    Applied to every occurrence, innermost last; the closure must be a literal with a single identifier parameter and no
    `return` / `?` / `break` / `continue` of its own."""
    done = 0
    while True:
        toks = code_tokens(body)
        ks = [i for i, t in enumerate(toks) if t[1] == "for_each" and toks[i - 1][1] == "." and toks[i + 1][1] == "(" and toks[i + 2][1] == "|" and toks[i + 4][1] == "|" and toks[i + 3][0] == "id"]
        if not ks:
            break
        k = ks[0]
        x = toks[k + 3][1]
        close = match_close(toks, k + 1)
        cb0 = k + 5
        cbody = body[toks[cb0][2]:toks[close - 1][3]]
        for t in toks[cb0:close]:
            if t[0] == "id" and t[1] in ("return", "break", "continue") or t[1] == "?":
                raise LostAnchor("%s: for_each closure contains %s" % (where, t[1]))
        # receiver: postfix chain backwards from the '.' before for_each
        j = k - 2
        while j >= 0:
            t = toks[j]
            if t[0] == "punct" and t[1] == ")":
                # matching open paren backwards
                depth, m = 0, j
                while m >= 0:
                    if toks[m][0] == "punct" and toks[m][1] in ")]}":
                        depth += 1
                    elif toks[m][0] == "punct" and toks[m][1] in "([{":
                        depth -= 1
                        if depth == 0:
                            break
                    m -= 1
                j = m - 1
                continue
            if t[0] == "id" or (t[0] == "punct" and t[1] == "."):
                j -= 1
                continue
            break
        recv = body[toks[j + 1][2]:toks[k - 2][3]]
        end = toks[close][3]
        tail = body[end:end + 1]
        blk = cbody if cbody.lstrip().startswith("{") and match_close(toks, cb0) == close - 1 else "{ " + cbody + " }"
        new = "for %s in %s %s" % (x, recv, blk)
        if tail == ";":
            end += 1
        prov.append({"cls": "D", "what": "Iterator::for_each desugared to a for loop", "iter": re.sub(r"\s+", "", recv), "elem": x})
        body = body[:toks[j + 1][2]] + new + body[end:]
        done += 1
    if done != count and not (count == -1 and done >= 1):
        raise LostAnchor("%s: %d for_each sites desugared, unit declares %d" % (where, done, count))
    return body


def _operand_start(toks, q):
    """index of the first token of the postfix expression that ends right before toks[q]"""
    j = q - 1
    while j >= 0:
        t = toks[j]
        if t[0] == "punct" and t[1] in ")]":
            depth, m = 0, j
            while m >= 0:
                if toks[m][0] == "punct" and toks[m][1] in ")]}":
                    depth += 1
                elif toks[m][0] == "punct" and toks[m][1] in "([{":
                    depth -= 1
                    if depth == 0:
                        break
                m -= 1
            j = m - 1
            # a call / index: keep going over the callee path
            if j >= 0 and (toks[j][0] == "id" or toks[j][1] == "!"):
                continue
            return m
        if t[0] == "id" or (t[0] == "punct" and t[1] in ".:!"):
            j -= 1
            continue
        break
    return j + 1


def _alpha(cbody, x, new_x):
    """rename the bound variable x to new_x inside a closure body (identifier tokens; not field names)"""
    ctoks = code_tokens(cbody)
    out, pos = [], 0
    for i, t in enumerate(ctoks):
        if t[0] == "id" and t[1] == x and not (i > 0 and ctoks[i - 1][1] == "." ):
            out.append(cbody[pos:t[2]]); out.append(new_x); pos = t[3]
    out.append(cbody[pos:])
    return "".join(out)


def desugar_try_for_each(body, count, where, prov, rename=None):
    """class D: `ITER.try_for_each(|X| BODY)?;` becomes `for X in ITER { (BODY)?; }`: a Break produced inside BODY (by `?`) or as
    BODY's value leaves the enclosing function at once in both forms; Continue goes on to the next element."""
    done = 0
    while True:
        toks = code_tokens(body)
        ks = [i for i, t in enumerate(toks) if t[1] == "try_for_each" and toks[i - 1][1] == "." and toks[i + 1][1] == "(" and toks[i + 2][1] == "|" and toks[i + 4][1] == "|" and toks[i + 3][0] == "id"]
        if not ks:
            break
        k = ks[-1]      # innermost / last first, so that offsets of outer sites stay valid after re-tokenising
        x = toks[k + 3][1]
        close = match_close(toks, k + 1)
        if not (toks[close + 1][1] == "?" and toks[close + 2][1] == ";"):
            raise LostAnchor("%s: try_for_each(..) is not immediately propagated with `?;`" % where)
        cbody = body[toks[k + 5][2]:toks[close - 1][3]]
        for t in toks[k + 5:close]:
            if t[0] == "id" and t[1] in ("return", "break", "continue"):
                raise LostAnchor("%s: try_for_each closure contains %s" % (where, t[1]))
        st = _operand_start(toks, k - 1)
        recv = body[toks[st][2]:toks[k - 2][3]]
        if rename and x in rename:
            # alpha-renaming: the closure parameter shadows a variable of the enclosing scope that contracts need to name
            cbody = _alpha(cbody, x, rename[x])
            prov.append({"cls": "D", "what": "bound variable `%s` renamed to `%s` (it shadows an outer variable)" % (x, rename[x])})
            x = rename[x]
        new = "for %s in %s { (%s)?; }" % (x, recv, cbody)
        prov.append({"cls": "D", "what": "try_for_each(..)? desugared to a for loop with `?` on the body", "iter": re.sub(r"\s+", "", recv), "elem": x})
        body = body[:toks[st][2]] + new + body[toks[close + 2][3]:]
        done += 1
    if done != count and not (count == -1 and done >= 1):
        raise LostAnchor("%s: %d try_for_each sites desugared, unit declares %d" % (where, done, count))
    return body


def desugar_match_str_literals(body, where, prov):
    """class D: `match X { Some("a") => A, Some("b") => B, None => N, _ => W }` on an Option<&str> becomes
       `match X { None => N, Some(lit_d6) => if str_eq(lit_d6, "a") { A } else if str_eq(lit_d6, "b") { B } else { W } }`
       (a string literal pattern matches by string equality; arms are tried in order; Verus has no literal string patterns).
       Only this exact shape: arms Some(<string literal>), at most one None arm, a final `_` arm."""
    toks = code_tokens(body)
    cands = []
    for i, t in enumerate(toks):
        if t[1] == "match" and t[0] == "id":
            j = i + 1
            while toks[j][1] != "{":
                j += 1
            c = match_close(toks, j)
            inner = toks[j + 1:c]
            if any(inner[q][1] == "Some" and inner[q + 1][1] == "(" and inner[q + 2][0] == "str" and inner[q + 3][1] == ")" for q in range(len(inner) - 3)):
                cands.append((i, j, c))
    if len(cands) != 1:
        raise LostAnchor("%s: expected exactly one match on string literals, found %d" % (where, len(cands)))
    i, j, c = cands[0]
    scrut = body[toks[i + 1][2]:toks[j - 1][3]]
    # split arms at depth-0 commas
    arms = []
    a = j + 1
    q = a
    while q < c:
        if toks[q][0] == "punct" and toks[q][1] in "([{":
            q = match_close(toks, q) + 1
            continue
        if toks[q][1] == ",":
            if q > a:
                arms.append((a, q))
            a = q + 1
        q += 1
    if a < c:
        arms.append((a, c))
    lits, none_arm, wild = [], None, None
    for (x, y) in arms:
        k = x
        while not (toks[k][1] == "=" and toks[k + 1][1] == ">"):
            k += 1
        pat = [t[1] for t in toks[x:k]]
        expr = body[toks[k + 2][2]:toks[y - 1][3]]
        if len(pat) == 4 and pat[0] == "Some" and pat[1] == "(" and toks[x + 2][0] == "str" and pat[3] == ")":
            if wild is not None:
                raise LostAnchor("%s: literal arm after the wildcard" % where)
            lits.append((pat[2], expr))
        elif pat == ["None"]:
            none_arm = expr
        elif pat == ["_"]:
            wild = expr
        else:
            raise LostAnchor("%s: unsupported arm pattern `%s` in a match on string literals" % (where, " ".join(pat)))
    if wild is None or not lits:
        raise LostAnchor("%s: match on string literals without wildcard arm" % where)
    chain = " else ".join("if str_eq(lit_d6, %s) { %s }" % (l, e) for l, e in lits) + " else { %s }" % wild
    new = "match %s {\n" % scrut
    if none_arm is not None:
        new += "            None => %s,\n" % none_arm
    new += "            Some(lit_d6) => %s,\n        }" % chain
    prov.append({"cls": "D", "what": "match on Option<&str> with string literal patterns desugared to an equality chain", "literals": [l for l, _ in lits]})
    return body[:toks[i][2]] + new + body[toks[c][3]:]


def desugar_question_controlflow(body, where, prov, hints=None):
    """class D: `E?` in a function returning ControlFlow<B, _> is
       `match E { ControlFlow::Continue(c) => c, ControlFlow::Break(b) => return ControlFlow::Break(b) }` (impl Try for ControlFlow).
       class A (optional, per site in source order): a ghost snapshot before the call (`pre`, must be `let ghost` statements) and a
       proof hint in the Break arm before the return (`hint`, wrapped in `proof { }`); the Break value is `b_`."""
    n = 0
    hints = {int(h["ordinal"]): h for h in (hints or [])}
    used = set()
    sites = []
    while True:
        toks = code_tokens(body)
        qs = [i for i, t in enumerate(toks) if t[0] == "punct" and t[1] == "?"]
        if not qs:
            break
        q = qs[-1]
        ordinal = len(qs) - 1
        st = _operand_start(toks, q)
        expr = body[toks[st][2]:toks[q - 1][3]]
        h = hints.get(ordinal)
        if h:
            pre = h.get("pre", "").strip()
            for stmt in [x.strip() for x in pre.split(";") if x.strip()]:
                if not stmt.startswith("let ghost "):
                    raise LostAnchor("%s: `pre` of a `?` hint must consist of `let ghost` statements" % where)
            new = ("{ %s match %s { ControlFlow::Continue(c_) => c_, ControlFlow::Break(b_) => { proof { %s } return ControlFlow::Break(b_) } } }"
                   % (pre, expr, h["hint"].strip()))
            used.add(ordinal)
        else:
            new = "match %s { ControlFlow::Continue(c_) => c_, ControlFlow::Break(b_) => return ControlFlow::Break(b_) }" % expr
        body = body[:toks[st][2]] + new + body[toks[q][3]:]
        sites.append("%d: %s" % (ordinal, re.sub(r"\s+", " ", expr)[:60]))
        n += 1
    if set(hints) - used:
        raise LostAnchor("%s: `?` hint ordinals %s do not exist (%d sites)" % (where, sorted(set(hints) - used), n))
    prov.append({"cls": "D", "what": "`?` on ControlFlow desugared to match/return at %d sites" % n, "sites": sites[::-1]})
    if used:
        prov.append({"cls": "A", "what": "ghost snapshot + proof hint in the Break arm of %d `?` sites" % len(used)})
    return body


def desugar_iter_mut_for_each(body, count, where, prov, rename=None):
    """class D: `RECV.iter_mut().for_each(|X| BODY)` becomes
       `{ let n = RECV.len(); let mut k = 0; while k < n { let X = &mut RECV[k]; BODY; k += 1; } }`
       (each element visited once, in order, by mutable reference). Index variables are numbered per site."""
    done = 0
    while True:
        toks = code_tokens(body)
        ks = [i for i, t in enumerate(toks) if t[1] == "for_each" and toks[i - 1][1] == "." and toks[i - 2][1] == ")" and toks[i - 3][1] == "(" and toks[i - 4][1] == "iter_mut"
              and toks[i + 1][1] == "(" and toks[i + 2][1] == "|" and toks[i + 4][1] == "|" and toks[i + 3][0] == "id"]
        if not ks:
            break
        k = ks[-1]
        x = toks[k + 3][1]
        close = match_close(toks, k + 1)
        cbody = body[toks[k + 5][2]:toks[close - 1][3]]
        for t in toks[k + 5:close]:
            if t[0] == "id" and t[1] in ("return", "break", "continue") or t[1] == "?":
                raise LostAnchor("%s: for_each closure contains %s" % (where, t[1]))
        st = _operand_start(toks, k - 5)
        recv = re.sub(r"\s+", "", body[toks[st][2]:toks[k - 6][3]])
        if rename and x in rename:
            cbody = _alpha(cbody, x, rename[x])
            x = rename[x]
        end = toks[close][3]
        if body[end:end + 1] == ";":
            end += 1
        n_, k_ = "n_m%d" % done, "k_m%d" % done
        new = "{ let %s = %s.len(); let mut %s: usize = 0; while %s < %s { let %s = &mut %s[%s]; %s; %s += 1; } }" % (n_, recv, k_, k_, n_, x, recv, k_, cbody, k_)
        prov.append({"cls": "D", "what": "iter_mut().for_each desugared to an index loop over `%s` (index %s)" % (recv, k_), "elem": x})
        body = body[:toks[st][2]] + new + body[end:]
        done += 1
    if done != count and not (count == -1 and done >= 1):
        raise LostAnchor("%s: %d iter_mut().for_each sites desugared, unit declares %d" % (where, done, count))
    return body


def lift_fold(sig, body, fl, where, prov):
    """class D (lifted form, used when the fold closure has early returns):
       `let N: T = ITER.fold(INIT, |mut ACC, X| BODY);` becomes
       `let N: T = { let mut ACC: T = INIT; for X in ITER { ACC = STEP(ACC, X, captures..); } ACC };`
       and `fn STEP(mut ACC: T, X: .., captures..) -> T BODY` with BODY verbatim (definition of Iterator::fold + closure conversion)."""
    toks = code_tokens(body)
    ks = [i for i, t in enumerate(toks) if t[1] == "fold" and toks[i - 1][1] == "." and toks[i + 1][1] == "("]
    if len(ks) != 1:
        raise LostAnchor("%s: %d fold sites, expected 1" % (where, len(ks)))
    k = ks[0]
    j, depth = k, 0
    while j >= 0:
        t = toks[j]
        if t[0] == "punct" and t[1] in ")]}":
            depth += 1
        elif t[0] == "punct" and t[1] in "([{":
            depth -= 1
        if t[1] == "=" and depth == 0 and not (toks[j + 1][1] in "=>" and toks[j + 1][2] == t[3]) and not (toks[j - 1][1] in "=!<>" and toks[j - 1][3] == t[2]):
            break
        j -= 1
    eq = j
    l = eq
    while toks[l][1] != "let":
        l -= 1
    colon = next(i for i in range(l, eq) if toks[i][1] == ":")
    ty = body[toks[colon + 1][2]:toks[eq - 1][3]]
    iter_txt = body[toks[eq + 1][2]:toks[k - 2][3]]
    op = k + 1
    cl = match_close(toks, op)
    if toks[cl + 1][1] != ";":
        raise LostAnchor("%s: fold is not the whole let initialiser" % where)
    a = op + 1
    c = a
    while not (toks[c][1] == "," and toks[c][0] == "punct"):
        if toks[c][0] == "punct" and toks[c][1] in "([{":
            c = match_close(toks, c)
        c += 1
    init = body[toks[a][2]:toks[c - 1][3]]
    if not (toks[c + 1][1] == "|" and toks[c + 2][1] == "mut" and toks[c + 4][1] == "," and toks[c + 6][1] == "|"):
        raise LostAnchor("%s: fold closure parameters not of the form |mut ACC, X|" % where)
    acc, x = toks[c + 3][1], toks[c + 5][1]
    b0 = c + 7
    if toks[b0][1] != "{":
        raise LostAnchor("%s: fold closure body is not a block" % where)
    b1 = match_close(toks, b0)
    if b1 + 1 != cl:
        raise LostAnchor("%s: fold closure is not the last argument" % where)
    cbody = body[toks[b0][2]:toks[b1][3]]
    locs = fn_locals(sig, body[:toks[l][2]])
    used = set(t[1] for t in code_tokens(cbody) if t[0] == "id")
    caps = sorted((used & locs) - {acc, x})
    if caps != sorted(fl["captures"]):
        raise LostAnchor("%s: fold closure captures %s, unit declares %s" % (where, caps, sorted(fl["captures"])))
    if x != fl["elem"].split(":")[0].strip():
        raise LostAnchor("%s: fold element is `%s`, unit declares `%s`" % (where, x, fl["elem"]))
    lsig = "fn %s%s(mut %s: %s, %s, %s) -> %s" % (fl["name"], fl.get("generics", ""), acc, fl.get("acc_type", ty), fl["elem"],
                                                ", ".join("%s: %s" % (cname, fl["capture_types"][cname]) for cname in fl["captures"]), fl.get("acc_type", ty))
    call = "%s(%s, %s, %s%s)" % (fl["name"], acc, x, ", ".join(fl["captures"]), fl.get("ghost_args", ""))
    new = "{\n        let mut %s: %s = %s;\n        for %s in %s {\n            %s = %s;\n        }\n        %s\n    };" % (acc, ty, init, x, iter_txt, acc, call, acc)
    prov.append({"cls": "D", "what": "Iterator::fold desugared to a for loop; its closure lifted to fn %s (captures %s)" % (fl["name"], caps), "iter": iter_txt.strip()})
    prov.append({"cls": "L", "what": "fold closure lifted to fn %s; body verbatim, returns keep their meaning" % fl["name"]})
    return body[:toks[eq + 1][2]] + new + body[toks[cl + 1][3]:], lsig, cbody


def spec_twin(item, name, sig_override, where, prov):
    """class A (ghost): a spec function whose body is the function's body text, verbatim (self -> x)."""
    body = strip_comments(item.body)
    body = re.sub(r"\bself\b", "x", body)
    prov.append({"cls": "A", "what": "spec twin %s: body copied verbatim" % name})
    return "spec fn %s%s %s" % (name, sig_override, body)


def name_return(sig, ret):
    """class A: `-> T` becomes `-> (ret: T)` so that contracts can name the result."""
    toks = code_tokens(sig)
    depth = 0
    for i, t in enumerate(toks):
        if t[1] in "([<" and t[0] == "punct":
            depth += 1
        elif t[1] in ")]>" and t[0] == "punct" and not (t[1] == ">" and toks[i - 1][1] == "-"):
            depth -= 1
        if t[1] == "-" and i + 1 < len(toks) and toks[i + 1][1] == ">" and depth == 0:
            a = toks[i + 1][3]
            # return type runs to `where` at depth 0 or end
            b = len(sig)
            d2 = 0
            for u in toks[i + 2:]:
                if u[0] == "punct" and u[1] in "([<":
                    d2 += 1
                elif u[0] == "punct" and u[1] in ")]>":
                    d2 -= 1
                if u[0] == "id" and u[1] == "where" and d2 == 0:
                    b = u[2]
                    break
            ty = sig[a:b].strip()
            rest = sig[b:]
            return sig[:a] + " (" + ret + ": " + ty + ") " + rest
    raise LostAnchor("no return type to name in `%s`" % sig[:60])


def split_where(sig):
    """Return (sig_without_where, where_clause_text)."""
    toks = code_tokens(sig)
    depth = 0
    for t in toks:
        if t[0] == "punct" and t[1] in "([":
            depth += 1
        elif t[0] == "punct" and t[1] in ")]":
            depth -= 1
        if t[0] == "id" and t[1] == "where" and depth == 0:
            return sig[:t[2]].rstrip(), sig[t[2]:].strip()
    return sig, ""


def find_loops(body):
    """Token indices of for/while/loop keywords in body (in source order), with the offset of the `{` opening each loop body."""
    toks = code_tokens(body)
    res = []
    for i, t in enumerate(toks):
        if t[0] == "id" and t[1] in ("for", "while", "loop"):
            # `for` in `for<'a>` HRTB does not occur in this code base; `impl X for Y` neither inside bodies
            j = i + 1
            in_off = None
            while j < len(toks):
                u = toks[j]
                if u[0] == "punct" and u[1] in "([":
                    j = match_close(toks, j)
                elif u[0] == "id" and u[1] == "in" and in_off is None and t[1] == "for":
                    in_off = (u[2], u[3])
                elif u[0] == "punct" and u[1] == "{":
                    res.append({"kw": t[1], "kw_off": t[2], "in": in_off, "open": u[2], "close": toks[match_close(toks, j)][2]})
                    break
                j += 1
    return res


def splice_fn(item_text_sig, item_body, spec, where, prov, with_goals, goal_index):
    """Return list of (text, origin) chunks for one function with its contract spliced in."""
    sig = item_text_sig
    if spec.get("ret"):
        sig = name_return(sig, spec["ret"])
        prov.append({"cls": "A", "what": "name return value `%s`" % spec["ret"]})
    sig, where_clause = split_where(sig)
    if spec.get("ghost_params"):
        # class L/A: ghost parameters appended to the signature
        stoks = code_tokens(sig)
        po = next(i for i, t in enumerate(stoks) if t[1] == "(" and i > 0 and stoks[i - 1][1] != "pub")
        # skip generics: the parameter list is the first '(' after the fn name / generic list
        k = stoks[match_close(stoks, po)][2]
        sig = sig[:k].rstrip().rstrip(",") + ", " + spec["ghost_params"] + sig[k:]
        prov.append({"cls": "A", "what": "ghost parameters", "text": spec["ghost_params"]})
    chunks = [(sig + "\n", ("sig",))]
    if where_clause:
        chunks.append(("    " + where_clause + "\n", ("sig",)))

    def clauses(kind, lst):
        if not lst:
            return
        chunks.append(("    " + kind + "\n", ("kw",)))
        for c in lst:
            if isinstance(c, str):
                c = {"id": None, "text": c}
            if c.get("goal_only"):
                # known-finding goal: checked in a twin file only, so that no caller can rely on it
                goal_index[c["id"]] = {"props": c.get("props"), "text": c["text"].strip(), "kind": kind}
                if not with_goals:
                    continue
            chunks.append(("        " + c["text"].strip().rstrip(",") + ",\n", ("clause", kind, c.get("id"), c.get("props"))))

    clauses("requires", spec.get("requires"))
    clauses("ensures", spec.get("ensures"))
    if spec.get("decreases"):
        chunks.append(("    decreases " + spec["decreases"] + "\n", ("kw",)))

    body = item_body
    assert body.startswith("{")
    # loops: splice invariants from the last loop to the first so offsets stay valid
    inserts = []   # (offset, text, origin, replace_len)
    loops = find_loops(body)
    for ls in spec.get("loop", []) or []:
        o = ls["ordinal"]
        if o >= len(loops):
            raise LostAnchor("%s: loop ordinal %d not found (%d loops)" % (where, o, len(loops)))
        lp = loops[o]
        if ls.get("expect_kw") and ls["expect_kw"] != lp["kw"]:
            raise LostAnchor("%s: loop %d is `%s`, declared `%s`" % (where, o, lp["kw"], ls["expect_kw"]))
        if lp["kw"] == "for" and ls.get("binder"):
            inserts.append((lp["in"][1], " " + ls["binder"] + ":", ("kw",), 0))
        inv_chunks = [("\n", ("kw",))]
        for kind in ("invariant_except_break", "invariant", "ensures"):
            if not ls.get(kind):
                continue
            inv_chunks.append(("    %s\n" % kind, ("kw",)))
            for c in ls.get(kind, []):
                if isinstance(c, str):
                    c = {"id": None, "text": c}
                inv_chunks.append(("        " + c["text"].strip().rstrip(",") + ",\n", ("clause", "invariant", c.get("id"), c.get("props"))))
        if ls.get("decreases"):
            inv_chunks.append(("    decreases " + ls["decreases"] + "\n", ("kw",)))
        inserts.append((lp["open"], inv_chunks, None, 0))
        if ls.get("top"):
            inserts.append((lp["open"] + 1, "\n" + ls["top"].rstrip() + "\n", ("hint", "loop%d" % o), 0))
        if ls.get("bottom"):
            # proof-only hint at the end of the loop body (wrapped in `proof { }`, so Verus rejects anything executable)
            inserts.append((lp["close"], "\nproof { " + ls["bottom"].strip() + " }\n", ("hint", "loop%d" % o), 0))
        if ls.get("canary", True):
            inserts.append((lp["open"] + 1, "\n/*@CANARY-LOOP@*/", ("canary", "loop%d" % o), 0))
        prov.append({"cls": "A", "what": "loop %d invariant/binder" % o})
    if spec.get("top"):
        inserts.append((1, "\n" + spec["top"].rstrip() + "\n", ("hint", "fn"), 0))
    inserts.append((1, "\n/*@CANARY-FN@*/", ("canary", "fn"), 0))
    # stable sort by offset; same offset: keep declaration order reversed so first declared ends up first
    inserts.sort(key=lambda x: x[0])
    pos = 0
    for off, txt, origin, _ in inserts:
        if off > pos:
            chunks.append((body[pos:off], ("body", pos)))
            pos = off
        if isinstance(txt, list):
            chunks.extend(txt)
        else:
            chunks.append((txt, origin))
    chunks.append((body[pos:], ("body", pos)))
    return chunks


def derive_impls(kind, name, derives, generics=""):
    out = []
    if "Clone" in derives:
        out.append("impl%s Clone for %s%s { #[verifier::external_body] fn clone(&self) -> (r: Self) ensures r == *self { unimplemented!() } }" % (generics, name, generics_use(generics)))
    if "PartialEq" in derives:
        out.append("impl%s PartialEq for %s%s { #[verifier::external_body] fn eq(&self, other: &Self) -> (r: bool) ensures r == (*self == *other) { unimplemented!() } }" % (generics, name, generics_use(generics)))
    return out


def generics_use(g):
    if not g:
        return ""
    names = re.findall(r"[<,]\s*('?[A-Za-z_][A-Za-z0-9_]*)", g)
    return "<" + ", ".join(names) + ">"


class Unit:
    def __init__(self, name, repo=None, with_goals=False):
        self.name = name
        self.with_goals = with_goals
        self.goal_index = {}
        self.repo = repo or REPO
        self.path = os.path.join(VERIF, "contracts", "units", name + ".toml")
        self.cfg = tomllib.load(open(self.path, "rb"))
        self.files = {}
        self.prov = {"unit": name, "items": [], "includes": []}
        self.fn_props = {}      # fn label -> props (safety bundle)
        self.clause_index = {}  # clause id -> {props, text, kind, fn}
        self.fmt_patterns = set()

    def src(self, rel):
        if rel not in self.files:
            if rel.startswith("@registry/"):
                # external crate source, version taken from /repo/Cargo.lock (mirrored type definitions only)
                _, crate, sub = rel.split("/", 2)
                lock = open(os.path.join(self.repo, "Cargo.lock")).read()
                m = re.search(r'name = "%s"\nversion = "([^"]+)"' % re.escape(crate), lock)
                if not m:
                    raise LostAnchor("crate %s not in Cargo.lock" % crate)
                import glob as _g
                c = _g.glob(os.path.expanduser("~/.cargo/registry/src/*/%s-%s/%s" % (crate, m.group(1), sub)))
                if len(c) != 1:
                    raise LostAnchor("registry source of %s %s not found" % (crate, m.group(1)))
                self.files[rel] = SourceFile(c[0], "%s-%s/%s" % (crate, m.group(1), sub))
            elif rel.endswith(".lalrpop"):
                # class G: every alternative's action block as a function (tools/grammar.py), rendered from the current text
                import grammar
                path = os.path.join(self.repo, rel)
                txt, meta = grammar.parse(open(path, encoding="utf-8").read())
                self.files[rel] = SourceFile(path, rel, text=txt)
                self.files[rel].grammar_meta = meta
            else:
                self.files[rel] = SourceFile(os.path.join(self.repo, rel), rel)
        return self.files[rel]

    def include(self, em, rel, origin_kind):
        p = os.path.join(VERIF, "contracts", rel)
        txt = open(p, encoding="utf-8").read()
        self.prov["includes"].append(rel)

        def reveal(m):
            # ghost hint generated from the current source: reveal every string literal of the named function
            it = self.src(m.group(1)).find(m.group(2))
            lits = []
            for t in code_tokens(strip_comments(it.body)):
                if t[0] == "str" and t[1] not in lits:
                    lits.append(t[1])
            for l in lits:
                if "\\" in l or not l.startswith('"'):
                    raise LostAnchor("REVEAL_LITERALS: literal with escapes: " + l)
            return " ".join("reveal_strlit(%s); assert(%s@.len() == %d);" % (l, l, len(l) - 2) for l in lits)
        txt = re.sub(r"/\*@REVEAL_LITERALS (\S+) (.+?)@\*/", reveal, txt)
        em.emit("// ---- %s ----" % rel, None)
        lem, cur = [], None
        for ln in txt.split("\n"):
            m = re.match(r"\s*(?:pub )?(?:broadcast )?proof fn ([A-Za-z0-9_]+)", ln)
            if m:
                cur = m.group(1)
            lem.append(cur)
            if ln.startswith("}"):
                cur = None
        lem.append(None)
        em.emit(txt, per_line=lambda k, rel=rel: {"kind": origin_kind, "file": rel, "line": k + 1, "lemma": lem[k] if k < len(lem) else None})

    def emit_item(self, em, spec):
        sf = self.src(spec["file"])
        it = sf.find(spec["find"])
        where = "%s:%s" % (spec["file"], spec["find"])
        prov = []
        label = spec.get("label") or spec["find"]
        a, b = it.lines()
        rec = {"file": spec["file"], "find": spec["find"], "lines": [a, b], "sha256": it.sha(), "edits": prov, "label": label}
        self.prov["items"].append(rec)
        raw = it.src[it.start:it.end]
        if it.kind in ("struct", "enum"):
            text, derives = _strip_attrs(strip_comments(raw), prov, spec.get("keep_derive", False))
            text = apply_edits(text, spec.get("edit"), where, prov)
            base = a
            em.emit(text, per_line=lambda k: {"kind": "repo", "file": spec["file"], "line": base + k, "item": label})
            for line in derive_impls(it.kind, it.name, [d for d in derives if d not in spec.get("no_derive", [])], spec.get("generics", "")):
                em.emit(line, {"kind": "trusted", "what": "derive impl for " + it.name})
                prov.append({"cls": "T", "what": line.split("{")[0].strip()})
            return
        if it.kind == "fn":
            attrs, derives = _strip_attrs(it.attrs, prov)
            sig = strip_comments(it.sig)
            body = strip_comments(it.body)
            gm = getattr(sf, "grammar_meta", None)
            if gm is not None:
                import grammar
                m = gm[it.name]
                prov.append({"cls": "G", "what": "grammar action of %s (alternative %d, src/aidl.lalrpop line %d) rendered as a function; pattern: %s"
                             % (m["nt"], m["alt"], m["line"], " ".join((e["name"] + ":" if e["name"] else "") + e["sym"] for e in m["layout"]))})
                rec["lines"] = [m["line"], m["line"]]
                if spec.get("layout_requires"):
                    spec = dict(spec)
                    spec["requires"] = [{"id": "G.layout_" + it.name, "text": " && ".join("(%s)" % c for c in grammar.layout_requires(dict(m, layout=[dict(e) for e in m["layout"]])))}] + list(spec.get("requires", []))
            if spec.get("contract_only"):
                spec = {k: v for k, v in spec.items() if k not in ("lift", "fold_lift", "desugar_folds", "desugar_map_collect_sets", "desugar_iter_mut_chain", "desugar_for_each", "desugar_try_for_each", "desugar_question_controlflow", "question_hints", "desugar_match_str_literals", "desugar_iter_mut_for_each", "closure", "autofmt", "top", "loop")}
                spec["edit"] = [e for e in spec.get("edit", []) if e.get("in") == "sig"]
            sig = apply_edits(sig, [e for e in spec.get("edit", []) if e.get("in") == "sig"], where, prov)
            body = apply_edits(body, [e for e in spec.get("edit", []) if e.get("in", "body") == "body"], where, prov)
            if spec.get("desugar_iter_mut_for_each"):
                body = desugar_iter_mut_for_each(body, spec["desugar_iter_mut_for_each"], where, prov, spec.get("rename_bound"))
            if spec.get("desugar_try_for_each"):
                body = desugar_try_for_each(body, spec["desugar_try_for_each"], where, prov, spec.get("rename_bound"))
            if spec.get("desugar_question_controlflow"):
                body = desugar_question_controlflow(body, where, prov, spec.get("question_hints"))
            if spec.get("desugar_match_str_literals"):
                body = desugar_match_str_literals(body, where, prov)
            if spec.get("desugar_for_each"):
                body = desugar_for_each(body, spec["desugar_for_each"], where, prov)
            if spec.get("desugar_iter_mut_chain"):
                body = desugar_iter_mut_filter_map_for_each(body, where, prov)
            if spec.get("desugar_map_collect_sets"):
                body = desugar_map_collect_sets(body, spec["desugar_map_collect_sets"], where, prov)
            if spec.get("desugar_folds"):
                body = desugar_folds(body, spec["desugar_folds"], where, prov)
            lifted = None
            lift_cfg = None
            if spec.get("fold_lift"):
                body, lsig, lbody = lift_fold(sig, body, spec["fold_lift"], where, prov)
                lifted = (lsig, lbody)
                lift_cfg = spec["fold_lift"]
            if spec.get("lift"):
                body, lsig, lbody = lift_closure(sig, body, spec["lift"], where, prov)
                lifted = (lsig, lbody)
                lift_cfg = spec["lift"]
            body = closure_contracts(body, spec.get("closure"), where, prov)
            if spec.get("autofmt"):
                body = auto_format(body, where, prov, self.fmt_patterns)
            if spec.get("twin"):
                em.emit(spec_twin(it, spec["twin"]["name"], spec["twin"]["sig"], where, prov), {"kind": "repo", "file": spec["file"], "line": a, "fn": label + " (twin)"})
            m = re.match(r"\s*(pub\s*(\([a-z:]+\))?\s+)", sig)
            if m:
                # class X: visibility has no executable meaning inside the single-file crate
                prov.append({"cls": "X", "what": "drop visibility `%s`" % m.group(1).strip()})
                sig = sig[m.end():]
            if spec.get("contract_only"):
                # imported contract: proved in its home unit, assumed here (the driver checks that the home unit is part of the same check)
                cs = dict(spec)
                cs.pop("loop", None); cs.pop("top", None)
                chunks = splice_fn(sig, "{ unimplemented!() }", cs, where, prov, False, {})
                em.emit("#[verifier::external_body]", {"kind": "imported", "what": "contract of %s, proved in unit %s" % (label, spec["contract_only"]), "home": spec["contract_only"], "label": label})
                for txt, org in chunks:
                    if org[0] == "canary":
                        continue
                    self._emit_partial(em, txt, lambda k, o=org: {"kind": "imported", "what": "contract of %s (unit %s)" % (label, spec["contract_only"]), "fn": label})
                self._flush(em)
                self.prov.setdefault("imports", []).append({"home": spec["contract_only"], "label": label})
                self.prov["items"].pop()
                return
            self.fn_props[label] = spec.get("props", [])
            body_line0 = it.src.count("\n", 0, it.body_open) + 1
            gi = {}
            chunks = splice_fn(sig, body, spec, where, prov, self.with_goals, gi)
            for cid, c in gi.items():
                self.goal_index[cid] = dict(c, fn=label, props=c['props'] or spec.get('props', []))
            if lifted and lift_cfg.get("no_enclosing"):
                # `_mut` walker: the enclosing function is not verified (aliasing &mut nodes cannot be iterated);
                # only the lifted step is. Its composition is a walker-level assumption, named in the unit.
                chunks = []
                prov.append({"cls": "L", "what": "enclosing function NOT verified (mutable walker); only the lifted closure is"})
                del self.fn_props[label]
            for txt, org in chunks:
                if org[0] == "body":
                    off = org[1]
                    l0 = body_line0 + body.count("\n", 0, off)
                    em.emit_raw = None
                    self._emit_partial(em, txt, lambda k, l0=l0: {"kind": "repo", "file": spec["file"], "line": l0 + k, "fn": label})
                elif org[0] == "clause":
                    cid = org[2]
                    if cid:
                        if cid in self.clause_index:
                            raise LostAnchor("duplicate clause id " + cid)
                        self.clause_index[cid] = {"props": org[3] or spec.get("props", []), "text": txt.strip(), "kind": org[1], "fn": label}
                    self._emit_partial(em, txt, lambda k, cid=cid, kind=org[1]: {"kind": "clause", "id": cid, "clause_kind": kind, "fn": label})
                elif org[0] == "canary":
                    self._emit_partial(em, txt, lambda k, w=org[1]: {"kind": "canary", "fn": label, "where": w})
                else:
                    self._emit_partial(em, txt, lambda k, o=org: {"kind": o[0], "fn": label})
            self._flush(em)
            if lifted:
                lsig, lbody = lifted
                lspec = dict(lift_cfg.get("contract", {}))
                lspec.setdefault("props", spec.get("props", []))
                llabel = "fn " + lift_cfg["name"]
                lbody = apply_edits(lbody, lspec.get("edit"), where + " (lifted)", prov)
                lbody = closure_contracts(lbody, lspec.get("closure"), where + " (lifted)", prov)
                if lspec.get("autofmt"):
                    lbody = auto_format(lbody, where, prov, self.fmt_patterns)
                self.fn_props[llabel] = lspec["props"]
                rec2 = dict(rec, label=llabel, find=spec["find"] + " (closure lifted, class L)")
                self.prov["items"].append(rec2)
                gi = {}
                chunks = splice_fn(lsig, lbody, lspec, where, prov, self.with_goals, gi)
                l0 = body_line0
                for txt, org in chunks:
                    if org[0] == "clause":
                        cid = org[2]
                        if cid:
                            self.clause_index[cid] = {"props": org[3] or lspec["props"], "text": txt.strip(), "kind": org[1], "fn": llabel}
                        self._emit_partial(em, txt, lambda k, cid=cid, kind=org[1]: {"kind": "clause", "id": cid, "clause_kind": kind, "fn": llabel})
                    elif org[0] == "canary":
                        self._emit_partial(em, txt, lambda k, w=org[1]: {"kind": "canary", "fn": llabel, "where": w})
                    elif org[0] == "body":
                        self._emit_partial(em, txt, lambda k: {"kind": "repo", "file": spec["file"], "line": l0, "fn": llabel})
                    else:
                        self._emit_partial(em, txt, lambda k, o=org: {"kind": o[0], "fn": llabel})
                self._flush(em)
            return
        if it.kind == "impl":
            raise LostAnchor("whole-impl extraction not supported; name the fn")
        raise LostAnchor("unsupported item kind " + it.kind)

    # partial-line emission: chunks may end mid-line
    def _emit_partial(self, em, txt, per_line):
        buf = getattr(self, "_buf", "")
        orgs = getattr(self, "_orgs", [])
        for k, piece in enumerate(txt.split("\n")):
            if k > 0:
                # finish current line
                line_no = em.line
                org = self._pick(orgs)
                em.chunks.append(buf + "\n")
                if org is not None:
                    em.map[line_no] = org
                em.line += 1
                buf, orgs = "", []
            buf += piece
            if piece.strip():
                orgs.append(per_line(k))
        self._buf, self._orgs = buf, orgs

    def _pick(self, orgs):
        if not orgs:
            return None
        # clause > canary > repo > others
        for pref in ("clause", "canary", "repo", "hint"):
            for o in orgs:
                if o["kind"] == pref:
                    return o
        return orgs[0]

    def _flush(self, em):
        buf = getattr(self, "_buf", "")
        if buf:
            self._emit_partial(em, "\n", lambda k: None)
        self._buf, self._orgs = "", []

    def assemble(self):
        em = Emitter()
        em.emit("// GENERATED by /verif/tools/units.py from %s -- do not edit\n#![allow(unused, non_snake_case, unreachable_code, unreachable_patterns)]\nuse vstd::prelude::*;\nverus! {" % self.name)
        blocks = []
        for blk in self.cfg["block"]:
            if "blocks_from" in blk:
                sub = tomllib.load(open(os.path.join(VERIF, "contracts", "units", blk["blocks_from"] + ".toml"), "rb"))
                blocks += sub["block"]
                self.prov["includes"].append("units/" + blk["blocks_from"] + ".toml")
            else:
                blocks.append(blk)
        for blk in blocks:
            if "include" in blk:
                self.include(em, blk["include"], blk.get("kind", "spec"))
            elif "raw" in blk:
                em.emit(blk["raw"], {"kind": blk.get("kind", "glue"), "file": "unit:" + self.name, "line": 0})
            elif "mod" in blk:
                em.emit("pub mod %s {\n%s" % (blk["mod"], blk.get("uses", "use super::*;")), {"kind": "glue"})
                for sub in blk.get("item", []):
                    self._emit_any(em, sub)
                em.emit("} // mod %s" % blk["mod"], {"kind": "glue"})
            else:
                self._emit_any(em, blk)
        # class G completeness: a unit that puts grammar actions under contract must cover every alternative that has an action
        # (a new alternative without a contract would silently stay outside the claim "every action ...")
        for rel, sf in self.files.items():
            gm = getattr(sf, "grammar_meta", None)
            if gm is not None and self.cfg.get("grammar_complete", False):
                used = {r_["find"][3:] for r_ in self.prov["items"] if r_.get("file") == rel and r_["find"].startswith("fn ")}
                missing = sorted(set(gm) - used)
                self.prov["grammar_actions"] = {"rendered": len(gm), "under_contract": len(used & set(gm))}
                if missing:
                    raise LostAnchor("%s: grammar alternative(s) with an action but without a contract: %s" % (rel, ", ".join(missing)))
        if self.fmt_patterns:
            em.emit(VSTR_TRAIT, {"kind": "trusted", "what": "class F: VStr (Display of String/str is the string itself)", "file": "tools/units.py"})
            for pat in sorted(self.fmt_patterns):
                em.emit(fmt_shim(pat), {"kind": "trusted", "what": "class F shim vfmt_" + pat, "file": "tools/units.py"})
        em.emit("} // verus!\nfn main() {}")
        return em

    def _emit_any(self, em, sub):
        if "include" in sub:
            self.include(em, sub["include"], sub.get("kind", "spec"))
        elif "raw" in sub:
            em.emit(sub["raw"], {"kind": sub.get("kind", "glue"), "file": "unit:" + self.name, "line": 0})
        elif "import_from" in sub:
            home = tomllib.load(open(os.path.join(VERIF, "contracts", "units", sub["import_from"] + ".toml"), "rb"))
            def walk(blocks):
                for b in blocks:
                    if "find" in b:
                        yield b
                    for key in ("item",):
                        if key in b:
                            yield from walk(b[key])
            table = {b["find"]: b for b in walk(home["block"])}
            for f in sub["finds"]:
                if f not in table:
                    raise LostAnchor("import_from %s: no item `%s`" % (sub["import_from"], f))
                self.emit_item(em, dict(table[f], contract_only=sub["import_from"], import_enclosing=True))
        elif "generator" in sub:
            import importlib
            importlib.import_module(sub["generator"]).generate(self, em)
        elif "verbatim" in sub:
            sf = self.src(sub["file"])
            it = sf.find(sub["verbatim"])
            a, b = it.lines()
            self.prov["items"].append({"file": sub["file"], "find": sub["verbatim"], "lines": [a, b], "sha256": it.sha(), "edits": [], "label": sub["verbatim"]})
            em.emit(strip_comments(it.src[it.sig_start:it.end]), per_line=lambda k: {"kind": "repo", "file": sub["file"], "line": a + k, "item": sub["verbatim"]})
        elif "impl" in sub:
            em.emit(sub["impl"] + " {", {"kind": "glue"})
            for f in sub["item"]:
                self._emit_any(em, f)
            em.emit("}", {"kind": "glue"})
        else:
            self.emit_item(em, sub)
