#!/bin/sh
# Witness finder for C19 obligations: RON round trip on the real types. exit 3 = witness found (printed), 0 = none.
cd "$(dirname "$0")/.."
out=$(python3 tools/scratch.py --test replay/c19_roundtrip.rs --dev-dep 'ron = "0.7"' -- cargo test --offline --test c19_roundtrip 2>&1)
if echo "$out" | grep -q "^WITNESS"; then
  echo "$out" | grep "^WITNESS" | cut -c1-600
  exit 3
fi
echo "$out" | grep -E "^test result" | head -3
exit 0
