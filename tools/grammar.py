"""grammar -- class G: the action blocks of /repo/src/aidl.lalrpop as Rust functions.

lalrpop turns every alternative `SYMBOLS => ACTION` of a nonterminal into a function whose parameters are the
grammar's own parameters, `input`, and the values of the alternative's bound symbols, and whose body is ACTION.
This module does the same thing mechanically, on every run, from the current text of the .lalrpop file:

    fn g_<Nonterminal>_<k>(<grammar params>, input: &'input str, <binder>: <type of its symbol>, ...) -> <declared type>
    { ACTION }                      -- ACTION is the verbatim byte range of the alternative's action

k is the position of the alternative inside its nonterminal (0-based, alternatives without action included).
Types of bound symbols come from the grammar's declarations:  @L/@R -> usize, terminals -> &'input str,
nonterminal -> its declared type (macro parameter substituted), X? -> Option<X>, X*/X+ -> Vec<X>,
( ... ) -> the selected (`<..>`) symbols, `!` -> lalrpop_util::ErrorRecovery<usize, Token<'input>, &'static str>;
`<>` in an action is the list of the alternative's symbol values (here always the single `!`), named __0;
`=>?` actions return Result<declared type, lalrpop_util::ParseError<usize, Token<'input>, &'static str>>.
What is dropped: the symbol pattern itself (kept as a `// layout:` comment and as metadata, from which the position
preconditions are generated), the token (`match`) section, comments.
Anything not understood raises LostAnchor (UNDECIDED, exit 2).
"""
import re
from rsx import code_tokens, match_close, LostAnchor

ERRREC = "lalrpop_util::ErrorRecovery<usize, Token<'input>, &'static str>"
PARSEERR = "lalrpop_util::ParseError<usize, Token<'input>, &'static str>"


class Sym:
    def __init__(self, kind, **kw):
        self.kind = kind          # pos | term | nt | group | err | opt | star | plus
        self.__dict__.update(kw)


def _parse_header(src, toks):
    # grammar<'err>( params );
    if toks[0][1] != "grammar":
        raise LostAnchor("aidl.lalrpop: no grammar header")
    k = 1
    generics = ""
    if toks[k][1] == "<":
        j = k
        while toks[j][1] != ">":
            j += 1
        generics = src[toks[k + 1][2]:toks[j][2]]
        k = j + 1
    if toks[k][1] != "(":
        raise LostAnchor("aidl.lalrpop: grammar header without parameters")
    c = match_close(toks, k)
    params = src[toks[k + 1][2]:toks[c][2]].strip().rstrip(",")
    params = re.sub(r"\s+", " ", params)
    if toks[c + 1][1] != ";":
        raise LostAnchor("aidl.lalrpop: grammar header not terminated")
    return generics.strip(), params, c + 2


def _type_text(src, toks, a, b):
    return re.sub(r"\s+", " ", src[toks[a][2]:toks[b - 1][3]]).strip()


class Parser:
    def __init__(self, src, toks, lo, hi, nts, macro_param=None):
        self.src, self.toks, self.i, self.hi = src, toks, lo, hi
        self.nts, self.macro_param = nts, macro_param

    def peek(self, d=0):
        j = self.i + d
        return self.toks[j][1] if j < self.hi else None

    def kind(self, d=0):
        j = self.i + d
        return self.toks[j][0] if j < self.hi else None

    def seq(self, stop):
        items = []
        while self.i < self.hi and self.peek() != stop:
            items.append(self.item())
        return items

    def item(self):
        """returns dict(name, mut, selected, sym)"""
        if self.peek() == "<":
            self.i += 1
            mut = False
            name = None
            if self.peek() == "mut":
                mut = True
                self.i += 1
            if self.kind() == "id" and self.peek(1) == ":" and self.peek(2) != ":":
                name = self.peek()
                self.i += 2
            s = self.sym()
            if self.peek() != ">":
                raise LostAnchor("aidl.lalrpop: `>` expected after bound symbol, found %r" % self.peek())
            self.i += 1
            return {"name": name, "mut": mut, "selected": True, "sym": s}
        return {"name": None, "mut": False, "selected": False, "sym": self.sym()}

    def sym(self):
        s = self.atom()
        while self.peek() in ("?", "*", "+"):
            s = Sym({"?": "opt", "*": "star", "+": "plus"}[self.peek()], inner=s)
            self.i += 1
        return s

    def atom(self):
        t = self.peek()
        k = self.kind()
        if t == "@":
            lr = self.peek(1)
            if lr not in ("L", "R"):
                raise LostAnchor("aidl.lalrpop: @%s" % lr)
            self.i += 2
            return Sym("pos", lr=lr)
        if k == "str":
            self.i += 1
            return Sym("term", text=t)
        if t == "!":
            self.i += 1
            return Sym("err")
        if t == "(":
            c = match_close(self.toks, self.i)
            sub = Parser(self.src, self.toks, self.i + 1, c, self.nts, self.macro_param)
            items = sub.seq(None)
            self.i = c + 1
            return Sym("group", items=items)
        if k == "id":
            self.i += 1
            if t in self.nts and self.nts[t]["param"] and self.peek() == "<":
                self.i += 1
                arg = self.sym()
                if self.peek() != ">":
                    raise LostAnchor("aidl.lalrpop: macro application of %s" % t)
                self.i += 1
                return Sym("nt", name=t, arg=arg)
            if t in self.nts or t == self.macro_param:
                return Sym("nt", name=t, arg=None)
            return Sym("term", text=t)
        raise LostAnchor("aidl.lalrpop: unexpected token %r in a symbol pattern" % t)


def type_of(s, nts, macro_param=None):
    if s.kind == "pos":
        return "usize"
    if s.kind == "term":
        return "&'input str"
    if s.kind == "err":
        return ERRREC
    if s.kind == "nt":
        if s.name == macro_param:
            return macro_param
        d = nts[s.name]
        t = d["type"]
        if s.arg is not None:
            t = re.sub(r"\b%s\b" % re.escape(d["param"]), type_of(s.arg, nts, macro_param), t)
        return t
    if s.kind == "opt":
        return "Option<%s>" % type_of(s.inner, nts, macro_param)
    if s.kind in ("star", "plus"):
        return "Vec<%s>" % type_of(s.inner, nts, macro_param)
    if s.kind == "group":
        sel = [it for it in s.items if it["selected"]]
        use = sel if sel else s.items
        ts = [type_of(it["sym"], nts, macro_param) for it in use]
        return ts[0] if len(ts) == 1 else "(" + ", ".join(ts) + ")"
    raise LostAnchor("aidl.lalrpop: symbol kind %s" % s.kind)


def sym_text(s):
    if s.kind == "pos":
        return "@" + s.lr
    if s.kind == "term":
        return s.text
    if s.kind == "err":
        return "!"
    if s.kind == "nt":
        return s.name + ("<%s>" % sym_text(s.arg) if s.arg is not None else "")
    if s.kind == "opt":
        return sym_text(s.inner) + "?"
    if s.kind == "star":
        return sym_text(s.inner) + "*"
    if s.kind == "plus":
        return sym_text(s.inner) + "+"
    if s.kind == "group":
        return "(" + " ".join(item_text(it) for it in s.items) + ")"


def item_text(it):
    t = sym_text(it["sym"])
    if it["selected"]:
        return "<%s%s%s>" % ("mut " if it["mut"] else "", (it["name"] + ":") if it["name"] else "", t)
    return t


def parse(src):
    """-> (rust_text, meta) ; meta[fname] = {nt, alt, layout: [(name|None, symtext, kind)], line}"""
    toks = code_tokens(src)
    generics, gparams, k = _parse_header(src, toks)
    # the token section ends the grammar part
    end = len(toks)
    for j in range(k, len(toks)):
        if toks[j][1] == "match" and toks[j + 1][1] == "{" and (j == 0 or toks[j - 1][1] in ("}", ";")):
            end = j
            break
    # pass 1: nonterminal declarations
    defs = []
    j = k
    while j < end:
        t = toks[j]
        if t[1] == "use":
            while toks[j][1] != ";":
                j += 1
            j += 1
            continue
        start = j
        if t[1] == "#":
            j = match_close(toks, j + 1) + 1
        if toks[j][1] == "pub":
            j += 1
            if toks[j][1] == "(":
                j = match_close(toks, j) + 1
        if toks[j][0] != "id":
            raise LostAnchor("aidl.lalrpop: nonterminal name expected near offset %d" % toks[j][2])
        name = toks[j][1]
        j += 1
        param = None
        if toks[j][1] == "<":
            param = toks[j + 1][1]
            if toks[j + 2][1] != ">":
                raise LostAnchor("aidl.lalrpop: macro %s with more than one parameter" % name)
            j += 3
        if toks[j][1] != ":":
            raise LostAnchor("aidl.lalrpop: `:` expected after %s" % name)
        ta = j + 1
        while not (toks[j][1] == "=" and toks[j + 1][1] == "{"):
            j += 1
        ty = _type_text(src, toks, ta, j)
        ob = j + 1
        cb = match_close(toks, ob)
        defs.append({"name": name, "param": param, "type": ty, "open": ob, "close": cb})
        j = cb + 1
    nts = {d["name"]: d for d in defs}
    out = []
    meta = {}
    life = "<" + ", ".join(["'input"] + ([generics] if generics else [])) + ">"
    for d in defs:
        # split alternatives at depth-0 commas
        alts = []
        a = d["open"] + 1
        depth = 0
        j = a
        while j < d["close"]:
            t = toks[j][1]
            if toks[j][0] == "punct" and t in "([{":
                j = match_close(toks, j) + 1
                continue
            if toks[j][0] == "punct" and t == ",":
                if j > a:
                    alts.append((a, j))
                a = j + 1
            j += 1
        if a < d["close"]:
            alts.append((a, d["close"]))
        for ai, (a, b) in enumerate(alts):
            arrow = None
            j = a
            while j < b - 1:
                if toks[j][0] == "punct" and toks[j][1] in "([{":
                    j = match_close(toks, j) + 1
                    continue
                if toks[j][1] == "=" and toks[j + 1][1] == ">" and toks[j][3] == toks[j + 1][2]:
                    arrow = j
                    break
                j += 1
            if arrow is None:
                continue                      # `Nonterminal,` : value passed through, no action code
            fallible = toks[arrow + 2][1] == "?" and toks[arrow + 2][2] == toks[arrow + 1][3]
            act_a = arrow + (3 if fallible else 2)
            action = src[toks[act_a][2]:toks[b - 1][3]]
            p = Parser(src, toks, a, arrow, nts, d["param"])
            items = p.seq(None)
            params = []
            layout = []
            anon = 0
            # lalrpop: when no symbol of the alternative is selected with `<..>`, all of them are (and `<>` lists them)
            none_selected = not any(it["selected"] for it in items)
            for it in items:
                ty = type_of(it["sym"], nts, d["param"])
                nm = it["name"]
                sel = it["selected"] or none_selected
                if sel and nm is None:
                    nm = "__%d" % anon
                    anon += 1
                if sel:
                    params.append(("mut " if it["mut"] else "") + "%s: %s" % (nm, ty))
                layout.append({"name": nm if sel else None, "sym": sym_text(it["sym"]), "kind": it["sym"].kind,
                               "lr": getattr(it["sym"], "lr", None), "type": ty})
            if re.search(r"<\s*>", action):
                # `<>`: the values of all selected symbols of the alternative, in order
                names = [e["name"] for e in layout if e["name"]]
                atoks = code_tokens(action)
                for q in range(len(atoks) - 1, 0, -1):
                    if atoks[q][1] == ">" and atoks[q - 1][1] == "<":
                        action = action[:atoks[q - 1][2]] + ", ".join(names) + action[atoks[q][3]:]
            ret = d["type"]
            if fallible:
                ret = "Result<%s, %s>" % (ret, PARSEERR)
            fname = "g_%s_%d" % (d["name"], ai)
            tparam = (life[:-1] + ", " + d["param"] + ">") if d["param"] else life
            body = action if action.lstrip().startswith("{") else "{ " + action + " }"
            line = src.count("\n", 0, toks[a][2]) + 1
            out.append("// layout: %s\n// source: src/aidl.lalrpop line %d (%s, alternative %d)\nfn %s%s(%s, input: &'input str%s) -> %s %s\n"
                       % (" ".join(item_text(it) for it in items), line, d["name"], ai, fname, tparam, gparams,
                          "".join(", " + p_ for p_ in params), ret, body))
            meta[fname] = {"nt": d["name"], "alt": ai, "layout": layout, "line": line, "fallible": fallible}
    return "\n".join(out), meta


def layout_requires(m):
    """Position preconditions generated from the symbol pattern of one alternative (what lalrpop's runtime guarantees for the
    values of @L / @R captures; assumed, listed as an assumption): every captured position may be given to the line/column
    lookup, and captures are non-decreasing in pattern order (each is the end of the symbol before it or the start of the
    one after it, and symbol spans are ordered)."""
    clauses = []
    prev = None
    for e in m["layout"]:
        if e["kind"] == "pos" and e["name"]:
            clauses.append("cap_ok(lookup, input, %s)" % e["name"])
            if prev:
                clauses.append("%s <= %s" % (prev, e["name"]))
            prev = e["name"]
        elif e["name"] and e["type"].startswith("Option<(usize,"):
            # ( ... <@L> ... )? : the inner capture lies between its neighbours when present
            n = e["name"]
            clauses.append("%s is Some ==> cap_ok(lookup, input, (%s->0).0)" % (n, n))
            if prev:
                clauses.append("%s is Some ==> %s <= (%s->0).0" % (n, prev, n))
            e["_inner"] = n
            prev_inner = n
            # the next top-level capture must also be >= the inner one
            m.setdefault("_pending_inner", []).append(n)
            continue
        if e["kind"] == "pos" and e["name"] and m.get("_pending_inner"):
            for n in m.pop("_pending_inner"):
                clauses.append("%s is Some ==> (%s->0).0 <= %s" % (n, n, e["name"]))
    return clauses


if __name__ == "__main__":
    import sys
    txt, meta = parse(open(sys.argv[1] if len(sys.argv) > 1 else "/repo/src/aidl.lalrpop").read())
    print(txt)
