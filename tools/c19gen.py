"""c19gen -- one obligation per `#[serde(skip_serializing_if = P [, default [= D]])]` field of /repo/src/ast.rs.

For a skipped field to survive a round trip, the value re-created for the missing field must equal the value that
was skipped:  forall x. P(&x) ==> x == D().   P and D are the *real* functions when they live in /repo: their
bodies are copied verbatim into spec twins and the exec originals are proved equal to the twins.
"""
import re
from rsx import LostAnchor, code_tokens, match_close, strip_comments

STD_PRED = {  # skip predicate -> spec over the value
    "Vec::is_empty": "x@.len() == 0",
    "Option::is_none": "x is None",
    "Option::is_some": "x is Some",
    "HashMap::is_empty": "x@.len() == 0 && x@.dom().finite()",
    "String::is_empty": "x@.len() == 0",
}
# value used for a missing field: #[serde(default)] -> Default::default() of the type
STD_DEFAULT = [
    (r"^bool$", "x == false"),
    (r"^Vec<.*>$", "x@ =~= Seq::empty()"),
    (r"^Option<.*>$", "x is None"),
    (r"^HashMap<.*>$", "x@ =~= Map::empty()"),
    (r"^String$", "x@ =~= Seq::empty()"),
]


def scan_fields(sf):
    """Yield (struct, field, type, pred, default) for every field with skip_serializing_if."""
    out = []
    for it in sf.items:
        if it.kind != "struct" or it.body_open is None:
            continue
        body = it.src[it.body_open + 1:it.end - 1]
        toks = code_tokens(body)
        k = 0
        pend = None
        while k < len(toks):
            t = toks[k]
            if t[1] == "#" and toks[k + 1][1] == "[":
                e = match_close(toks, k + 1)
                if toks[k + 2][1] == "serde":
                    txt = body[toks[k + 2][2]:toks[e][2]]
                    m = re.search(r'skip_serializing_if\s*=\s*"([^"]+)"', txt)
                    if m:
                        d = re.search(r'\bdefault\s*=\s*"([^"]+)"', txt)
                        has_default = re.search(r"\bdefault\b", txt) is not None
                        pend = (m.group(1), d.group(1) if d else ("<Default>" if has_default else None))
                k = e + 1
                continue
            if t[0] == "id" and t[1] == "pub":
                k += 1
                continue
            if t[0] == "id" and toks[k + 1][1] == ":":
                name = t[1]
                j = k + 2
                depth = 0
                while j < len(toks):
                    u = toks[j]
                    if u[1] in "<([":
                        depth += 1
                    elif u[1] in ">)]":
                        depth -= 1
                    elif u[1] == "," and depth == 0:
                        break
                    j += 1
                ty = re.sub(r"\s+", "", body[toks[k + 2][2]:toks[j - 1][3]])
                if pend:
                    out.append((it.name, name, ty, pend[0], pend[1]))
                pend = None
                k = j + 1
                continue
            k += 1
    return out


def body_expr(item):
    b = strip_comments(item.body).strip()
    assert b.startswith("{") and b.endswith("}")
    inner = b[1:-1].strip()
    if ";" in inner or "let " in inner:
        raise LostAnchor("C19: predicate/default body is not a single expression: " + item.name)
    return inner


def _snake(name):
    """serde's rename_all = "snake_case" for a variant name (RenameRule::SnakeCase applied to PascalCase)."""
    out = ""
    for i, ch in enumerate(name):
        if ch.isupper():
            if i > 0:
                out += "_"
            out += ch.lower()
        else:
            out += ch
    return out


def serialised_names(sf):
    """-> list of (container, [names as written by serde]) for every struct / enum of the file that derives Serialize:
    field name or its `rename`, variant name under the container's `rename_all` (only snake_case is understood)."""
    res = []
    for it in sf.items:
        if it.kind not in ("struct", "enum") or it.body_open is None:
            continue
        if "Serialize" not in it.attrs:
            continue
        m = re.search(r'rename_all\s*=\s*"([^"]+)"', it.attrs)
        rule = m.group(1) if m else None
        for ca in re.findall(r"#\[serde\((.*?)\)\]", it.attrs, re.S):
            if re.sub(r'\brename_all\s*=\s*"[^"]*"', "", ca).replace(",", "").strip():
                raise LostAnchor("C19: container attribute not understood on %s: serde(%s)" % (it.name, ca))
        if rule not in (None, "snake_case"):
            raise LostAnchor("C19: rename_all = %s on %s not understood" % (rule, it.name))
        body = it.src[it.body_open + 1:it.end - 1]
        toks = code_tokens(body)
        names, k, pend, depth = [], 0, None, 0
        while k < len(toks):
            t = toks[k]
            if t[1] == "#" and toks[k + 1][1] == "[":
                e = match_close(toks, k + 1)
                if toks[k + 2][1] == "serde":
                    txt = body[toks[k + 2][2]:toks[e][2]]
                    mm = re.search(r'\brename\s*=\s*"([^"]+)"', txt)
                    if mm:
                        pend = mm.group(1)
                    # every serde attribute of a member must be one the obligations account for
                    inner = txt[txt.index("(") + 1:txt.rindex(")")] if "(" in txt else ""
                    rest = re.sub(r'\b(default|skip_serializing_if|rename)\s*=\s*"[^"]*"', "", inner)
                    rest = re.sub(r"\bdefault\b", "", rest)
                    if rest.replace(",", "").strip():
                        raise LostAnchor("C19: serde attribute not understood on a member of %s: %s" % (it.name, txt))
                k = e + 1
                continue
            if t[1] in ("(", "<", "[", "{"):
                k = match_close(toks, k) + 1 if t[1] != "<" else k + 1
                continue
            if it.kind == "struct":
                if t[0] == "id" and t[1] != "pub" and toks[k + 1][1] == ":" and toks[k + 2][1] != ":" and (k == 0 or toks[k - 1][1] in (",", "pub", "]", ")")):
                    names.append(pend or t[1])
                    pend = None
                    # skip the type up to the next top-level comma
                    j, d = k + 2, 0
                    while j < len(toks) and not (toks[j][1] == "," and d == 0):
                        if toks[j][1] in "<([":
                            d += 1
                        elif toks[j][1] in ">)]":
                            d -= 1
                        j += 1
                    k = j + 1
                    continue
            else:
                if t[0] == "id" and (k == 0 or toks[k - 1][1] in (",", "]")):
                    names.append(pend or (_snake(t[1]) if rule else t[1]))
                    pend = None
            k += 1
        res.append((it.name, names))
    return res


def distinct_lemma(container, names):
    """A lemma whose postcondition is the pairwise distinctness of the serialised names; the proof is generated too
    (literals revealed; a differing length or a differing character for every pair)."""
    ens, body = [], []
    for n in names:
        body.append('reveal_strlit("%s"); assert("%s"@.len() == %d);' % (n, n, len(n)))
    for i in range(len(names)):
        for j in range(i + 1, len(names)):
            a, b = names[i], names[j]
            ens.append('"%s"@ != "%s"@' % (a, b))
            if len(a) == len(b):
                d = next((k for k in range(len(a)) if a[k] != b[k]), None)
                if d is None:
                    body.append('// "%s" is written twice: no proof possible' % a)
                else:
                    body.append('assert("%s"@[%d] != "%s"@[%d]);' % (a, d, b, d))
    nm = "c19_names_%s" % container
    txt = "// %s: names under which its members are written: %s\nproof fn %s()\n    ensures %s\n{\n    %s\n}" % (
        container, ", ".join(names), nm, ",\n        ".join(ens) if ens else "true", "\n    ".join(body))
    return nm, txt


def generate(unit, em):
    sf = unit.src("src/ast.rs")
    fields = scan_fields(sf)
    raw = sf.src
    n_attr = len(re.findall(r"skip_serializing_if", "".join(t[1] for t in code_tokens(raw) if t[0] != "str") + "".join(t[1] for t in code_tokens(raw) if t[0] == "str")))
    if n_attr != len(fields):
        raise LostAnchor("C19: %d skip_serializing_if attributes but %d fields recognised" % (n_attr, len(fields)))
    lemmas = []
    emitted_local = {}
    out = []

    def local_pred(pred, ty):
        """Return spec expression over x for a predicate that lives in /repo, emitting its twin."""
        key = (pred, ty)
        if key in emitted_local:
            return emitted_local[key]
        tr, _, fn = pred.rpartition("::")
        # trait method implemented for the field type?
        item = None
        for it in sf.items:
            if it.kind == "impl" and re.sub(r"\s", "", it.name) == re.sub(r"\s", "", "%s for %s" % (tr, ty)):
                item = [m for m in sf.impl_members(it) if m.kind == "fn" and m.name == fn]
        if not item:
            for it in sf.items:
                if it.kind == "impl" and re.sub(r"\s", "", it.name) == tr:
                    item = [m for m in sf.impl_members(it) if m.kind == "fn" and m.name == fn]
        if not item:
            raise LostAnchor("C19: skip predicate %s for %s not found in src/ast.rs" % (pred, ty))
        f = item[0]
        expr = body_expr(f)
        a, b = f.lines()
        nm = "c19_pred_%s_%s" % (re.sub(r"\W", "_", pred), re.sub(r"\W", "_", ty))
        unit.prov["items"].append({"file": "src/ast.rs", "find": pred + " for " + ty, "lines": [a, b], "sha256": f.sha(), "label": nm,
                                   "edits": [{"cls": "A", "what": "body copied verbatim into spec twin %s_spec; exec copy proved equal to it" % nm}]})
        sexpr = re.sub(r"\bself\b", "x", expr)
        sexpr = re.sub(r"\bSelf::", ty + "::", sexpr)
        out.append(("// %s (src/ast.rs:%d-%d), body copied verbatim\nspec fn %s_spec(x: &%s) -> bool { %s }\nfn %s(x: &%s) -> (r: bool) ensures r == %s_spec(x) { %s }"
                    % (pred, a, b, nm, ty, sexpr, nm, ty, nm, sexpr), {"kind": "repo", "file": "src/ast.rs", "line": a, "fn": nm}))
        unit.fn_props[nm] = ["C19"]
        emitted_local[key] = "%s_spec(&x)" % nm
        return emitted_local[key]

    def local_default(ty):
        for it in sf.items:
            if it.kind == "impl" and re.sub(r"\s", "", it.name) == "Defaultfor" + ty:
                f = [m for m in sf.impl_members(it) if m.kind == "fn" and m.name == "default"][0]
                expr = body_expr(f)
                a, b = f.lines()
                nm = "c19_default_%s" % re.sub(r"\W", "_", ty)
                if nm not in emitted_local:
                    unit.prov["items"].append({"file": "src/ast.rs", "find": "impl Default for " + ty, "lines": [a, b], "sha256": f.sha(), "label": nm,
                                               "edits": [{"cls": "A", "what": "body copied verbatim into spec twin"}]})
                    out.append(("// <%s as Default>::default (src/ast.rs:%d-%d), body copied verbatim\nspec fn %s_spec() -> %s { %s }\nfn %s() -> (r: %s) ensures r == %s_spec() { %s }"
                                % (ty, a, b, nm, ty, expr, nm, ty, nm, expr), {"kind": "repo", "file": "src/ast.rs", "line": a, "fn": nm}))
                    unit.fn_props[nm] = ["C19"]
                    emitted_local[nm] = True
                return "x == %s_spec()" % nm
        return None

    def named_default(dfn, ty):
        # default = "path": a free fn / assoc fn in ast.rs
        name = dfn.split("::")[-1]
        cands = [it for it in sf.items if it.kind == "fn" and it.name == name]
        for it in sf.items:
            if it.kind == "impl":
                cands += [m for m in sf.impl_members(it) if m.kind == "fn" and m.name == name]
        if len(cands) != 1:
            raise LostAnchor("C19: default fn %s found %d times" % (dfn, len(cands)))
        f = cands[0]
        expr = body_expr(f)
        a, b = f.lines()
        nm = "c19_defaultfn_%s" % re.sub(r"\W", "_", dfn)
        if nm not in emitted_local:
            unit.prov["items"].append({"file": "src/ast.rs", "find": "fn " + dfn, "lines": [a, b], "sha256": f.sha(), "label": nm,
                                       "edits": [{"cls": "A", "what": "body copied verbatim into spec twin"}]})
            out.append(("// %s (src/ast.rs:%d-%d), body copied verbatim\nspec fn %s_spec() -> %s { %s }\nfn %s() -> (r: %s) ensures r == %s_spec() { %s }"
                        % (dfn, a, b, nm, ty, expr, nm, ty, nm, expr), {"kind": "repo", "file": "src/ast.rs", "line": a, "fn": nm}))
            unit.fn_props[nm] = ["C19"]
            emitted_local[nm] = True
        return "x == %s_spec()" % nm

    for (st, fld, ty, pred, dflt) in fields:
        if pred in STD_PRED:
            p = STD_PRED[pred]
        else:
            p = local_pred(pred, ty)
        if dflt is None:
            # no #[serde(default)]: serde still fills a missing Option with None; anything else is a missing-field error
            d = "x is None" if ty.startswith("Option<") else "false"
        elif dflt == "<Default>":
            d = local_default(ty)
            if d is None:
                d = next((e for rx, e in STD_DEFAULT if re.match(rx, ty)), None)
            if d is None:
                raise LostAnchor("C19: no Default model for type %s" % ty)
        else:
            d = named_default(dflt, ty)
        nm = "c19_%s_%s" % (st, fld)
        out.append(("// %s.%s: %s  skip_serializing_if=%s default=%s\nproof fn %s(x: %s)\n    requires %s\n    ensures %s\n{\n}"
                    % (st, fld, ty, pred, dflt, nm, ty, p, d), {"kind": "spec", "file": "generated:c19", "line": 0, "lemma": nm}))
        lemmas.append({"name": nm, "props": ["C19"], "text": "%s.%s: %s(&x) ==> x is the value a missing field is read back as (%s)" % (st, fld, pred, dflt)})
    # no two members of a container are written under the same name (a collision would make one of them unreadable)
    for container, names in serialised_names(sf):
        if len(names) < 2:
            continue
        nm, txt = distinct_lemma(container, names)
        out.append((txt, {"kind": "spec", "file": "generated:c19", "line": 0, "lemma": nm}))
        lemmas.append({"name": nm, "props": ["C19"], "text": "%s: the %d names its members are serialised under are pairwise distinct (%s)" % (container, len(names), ", ".join(names))})
    for txt, org in out:
        em.emit(txt, org)
    unit.cfg.setdefault("lemma", [])
    unit.cfg["lemma"] = unit.cfg["lemma"] + lemmas
    unit.prov["c19_fields"] = [list(f) for f in fields]
