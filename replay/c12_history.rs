// Bounded oracle for C12: after every step of every operation sequence the parser must return what a fresh parser
// holding only the surviving (id, latest content) pairs returns.
use aidl_parser::Parser;
use std::collections::BTreeMap;
use std::path::PathBuf;

const NC: usize = 6;
const CONTENTS: [&str; NC] = [
    "package q; parcelable A { int x; }",
    "package q; interface A { void f(); }",
    "package p; import q.A; interface I { void f(in A a); A g(); }",
    "package p; interface J { oops",
    // texts the parser rejects WITHOUT recovery (no tree at all): replacing a good content by one of these must drop the old tree
    "",
    "interface NoPackage { void f(); }",
];

fn snapshot<ID: std::fmt::Debug + Ord + Clone + std::hash::Hash + Eq>(p: &Parser<ID>) -> Vec<(ID, String)> {
    let mut v: Vec<(ID, String)> = p.validate().into_iter().map(|(k, fr)| (k, format!("{:?}|{:?}|{:?}", fr.id, fr.ast, fr.diagnostics))).collect();
    v.sort();
    v
}

#[test]
fn c12_all() {
    let mut ok = true;
    // ops: 0..3*NC = add(id, content), then 3 x remove(id), then validate
    let n_ops = 3 * NC + 4;
    let mut checked = 0usize;
    let full = std::env::var("ORACLE_FULL").map(|v| v == "1").unwrap_or(false);
    for len in 1..=4usize {
        let total = n_ops.pow(len as u32);
        for code in 0..total {
            // quick: length <= 2 exhaustively, length 3 every 11th, length 4 every 997th; thorough: length 3 every 3rd, length 4 every 199th
            if len == 3 && code % (if full { 3 } else { 11 }) != 0 { continue; }
            if len == 4 && code % (if full { 199 } else { 997 }) != 0 { continue; }
            let mut c = code;
            let mut p: Parser<u32> = Parser::new();
            let mut model: BTreeMap<u32, &str> = BTreeMap::new();
            let mut desc = Vec::new();
            for _ in 0..len {
                let op = c % n_ops; c /= n_ops;
                if op < 3 * NC { let (id, k) = ((op / NC) as u32, op % NC); p.add_content(id, CONTENTS[k]); model.insert(id, CONTENTS[k]); desc.push(format!("add({},c{})", id, k)); }
                else if op < 3 * NC + 3 { let id = (op - 3 * NC) as u32; p.remove_content(id); model.remove(&id); desc.push(format!("remove({})", id)); }
                else { let _ = p.validate(); desc.push("validate".to_owned()); }
                if desc.len() < len && !full { continue; } // compare after the last step only (every step in the thorough tier)
                // two same-key files of different kinds make the result hash-order dependent (known finding of C11): skip those states
                let kinds: Vec<&&str> = model.values().filter(|s| s.starts_with("package q;")).collect();
                if kinds.iter().any(|a| kinds.iter().any(|b| a != b)) { continue; }
                let mut fresh: Parser<u32> = Parser::new();
                for (id, s) in model.iter().rev() { fresh.add_content(*id, s); }
                checked += 1;
                if snapshot(&p) != snapshot(&fresh) {
                    println!("WITNESS history {:?}: result differs from a fresh parser holding {:?}", desc, model);
                    ok = false;
                }
            }
            if !ok { break; }
        }
        if !ok { break; }
    }
    // file loading: equals add_content under the path; failures change nothing and report an error
    let dir = std::env::temp_dir().join(format!("verif-c12-{}", std::process::id()));
    std::fs::create_dir_all(&dir).unwrap();
    let good = dir.join("A.aidl"); std::fs::write(&good, CONTENTS[0]).unwrap();
    let bad = dir.join("bad.aidl"); std::fs::write(&bad, [0xff, 0xfe, 0x00, 0xc3]).unwrap();
    let missing = dir.join("missing.aidl");
    let mut p: Parser<PathBuf> = Parser::new();
    p.add_content(dir.join("I.aidl"), CONTENTS[2]);
    let before = snapshot(&p);
    if p.add_file(&missing).is_ok() { println!("WITNESS add_file(missing) returned Ok"); ok = false; }
    if p.add_file(&bad).is_ok() { println!("WITNESS add_file(invalid UTF-8) returned Ok"); ok = false; }
    if snapshot(&p) != before { println!("WITNESS a failed add_file changed the parser state"); ok = false; }
    if p.add_file(&good).is_err() { println!("WITNESS add_file(readable) failed"); ok = false; }
    let mut q: Parser<PathBuf> = Parser::new();
    q.add_content(dir.join("I.aidl"), CONTENTS[2]);
    q.add_content(good.clone(), CONTENTS[0]);
    if snapshot(&p) != snapshot(&q) { println!("WITNESS add_file differs from add_content(path, text)"); ok = false; }
    let _ = std::fs::remove_dir_all(&dir);
    println!("cases: {} states compared", checked);
    assert!(ok, "witness found");
}
