// Witness finder / replayer for C01(b)/C04: the one computed offset (transact-code error range).
use aidl_parser::Parser;
use std::panic;

#[test]
fn c01_transact_code_range() {
    panic::set_hook(Box::new(|_| {}));
    let gaps = ["", " ", "  ", "\t", "\u{2003}", "\u{a0}", " /* é */ ", "\n"];
    let mut ok = true;
    for g in gaps.iter() {
        let src = format!("package p; interface I {{ void f() ={}99999999999; }}", g);
        let s2 = src.clone();
        let r = panic::catch_unwind(move || {
            let mut parser = Parser::new();
            parser.add_content(0, &s2);
            let res = parser.validate();
            res[&0].diagnostics.iter().filter(|d| d.message.starts_with("Invalid method transact code")).map(|d| (d.range.start.offset, d.range.end.offset)).collect::<Vec<_>>()
        });
        let want_start = src.find("99999999999").unwrap();
        match r {
            Err(e) => { println!("WITNESS PANIC {:?}; source: {:?}", e.downcast_ref::<String>(), src); ok = false; }
            Ok(v) => {
                if v != vec![(want_start, want_start + 11)] {
                    println!("WITNESS transact-code error range {:?}, expected [({}, {})] (the INTEGER token); source: {:?}", v, want_start, want_start + 11, src);
                    ok = false;
                }
            }
        }
    }
    assert!(ok, "witness found");
}
