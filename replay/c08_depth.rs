// Bounded oracle for C08 (depth): the container rules hold for a container at ANY nesting depth. Metamorphic reference: an
// offending (or legal) type wrapped in k legal `Map<String, ...>` layers must get exactly the diagnostics it gets unwrapped
// (k = 0, whose correctness is the business of the proofs and of replay/oracle.rs) - same kinds and messages, ranges shifted
// by the length of the wrapper prefix. Depths 0..=24, in field / return / argument / constant position.
use aidl_parser::diagnostic::DiagnosticKind;
use aidl_parser::Parser;

fn diags(files: &[(&str, String)]) -> Vec<(String, String, usize, usize)> {
    let mut p = Parser::new();
    for (i, (_, t)) in files.iter().enumerate() { p.add_content(i as u32, t); }
    let res = p.validate();
    let mut v: Vec<(String, String, usize, usize)> = res[&0].diagnostics.iter().map(|d| (format!("{:?}", d.kind == DiagnosticKind::Error), d.message.clone(), d.range.start.offset, d.range.end.offset)).collect();
    v.sort();
    v
}

#[test]
fn c08_depth() {
    let inner = ["List<int>", "Map<String, long>", "CharSequence[]", "List", "Map", "List<P>", "Map<int, String>", "Map<String, List<IBinder>>", "List<Map<String, P>>", "P[]", "int[]", "List<String>[]", "ParcelableHolder[]", "List<E>", "Map<String, I>", "List<Nope>", "Nope[]", "q.P", "Map<String, x.Nope>"];
    let others: [(&str, String); 3] = [("P", "package q; parcelable P { int x; }".into()), ("E", "package q; enum E { A }".into()), ("I", "package q; interface I { void f(); }".into())];
    let head = "package p; import q.P; import q.E; import q.I; ";
    let frames: [(&str, &str); 4] = [
        ("parcelable W { ", " f; }"),
        ("interface W { ", " f(); }"),
        ("interface W { void f(in ", " a); }"),
        ("parcelable W { const int K = 1; ", " g; }"),
    ];
    let (mut n, mut bad) = (0usize, 0usize);
    for t in inner.iter() { for (fa, fb) in frames.iter() {
        let mut base: Option<Vec<(String, String, usize, usize)>> = None;
        for k in 0..=24usize {
            let pre = "Map<String, ".repeat(k); let post = ">".repeat(k);
            let main = format!("{}{}{}{}{}{}", head, fa, pre, t, post, fb);
            let mut files: Vec<(&str, String)> = vec![("W", main.clone())];
            for o in others.iter() { files.push((o.0, o.1.clone())); }
            let d = diags(&files);
            n += 1;
            match &base {
                None => base = Some(d),
                Some(b) => {
                    // positions inside the inner type move right by the wrapper prefix; positions behind it by prefix + suffix
                    let start_inner = head.len() + fa.len();
                    let end_inner0 = start_inner + t.len();
                    let want: Vec<(String, String, usize, usize)> = { let mut w: Vec<_> = b.iter().map(|(kd, m, s, e)| {
                        let sh = |x: usize| if x < start_inner { x } else if x <= end_inner0 { x + pre.len() } else { x + pre.len() + post.len() };
                        (kd.clone(), m.clone(), sh(*s), sh(*e)) }).collect(); w.sort(); w };
                    if d != want {
                        if bad < 8 { println!("WITNESS property=C08 container {:?} under {} layers of Map<String, .>: diagnostics {:?}, expected (those of depth 0, shifted) {:?}; source: {:?}", t, k, d, want, main); }
                        bad += 1;
                        break;
                    }
                }
            }
        }
    } }
    println!("ORACLE-STATS evaluations={} distinct={} rule=19 inner types (offending and legal containers) x 4 positions x nesting depth 0..=24 under legal Map<String, .> layers: the diagnostics equal those of depth 0 with shifted ranges", n, n);
    assert!(bad == 0, "witness found");
}
