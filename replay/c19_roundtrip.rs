// Witness replay for C19: serialise a validated tree to RON and read it back on the real types.
use aidl_parser::Parser;

fn roundtrip(name: &str, src: &str) -> bool {
    let mut parser = Parser::new();
    parser.add_content(0, src);
    parser.add_content(1, "package x; parcelable P { int a = 3; @nullable(heap=true) String[] s; /** doc */ List<String> l; Map m; }");
    parser.add_content(2, "package x; @Backing(type=\"byte\") enum E { /** d */ A = 1, B, }");
    let res = parser.validate();
    let mut ok = true;
    for (id, fr) in res.iter() {
        if let Some(ast) = fr.ast.as_ref() {
            let s = ron::to_string(ast).expect("serialise");
            match ron::from_str::<aidl_parser::ast::Aidl>(&s) {
                Ok(back) if back == *ast => (),
                Ok(_) => { println!("WITNESS case={} file={} tree differs after round trip; source: {}", name, id, src); ok = false; }
                Err(e) => { println!("WITNESS case={} file={} cannot be read back: {}; source: {}", name, id, e, src); ok = false; }
            }
        }
    }
    ok
}

#[test]
fn c19_all() {
    let cases = [
        ("oneway_method", "package x; interface I { oneway void f(); }"),
        ("plain_method", "package x; import x.P; import x.E; interface I { /** m */ @A P f(in String s, out int[] a, inout List<P> l, E e, in Map<String, P> m) = 12; const int C = 1; }"),
        ("oneway_interface", "package x; oneway interface I { void f(); oneway void g(); }"),
        ("unnamed_args", "package x; interface I { void f(int, in IBinder, in ParcelFileDescriptor p); }"),
        ("fwd", "package x; parcelable Q; interface I { void f(in Q q, in android.os.ParcelFileDescriptor d); }"),
        ("empty_docs", "package x; /** */ interface I { /***/ void f(/** */ int a); /**\n *\n */ const int K = 1; /** d */ void g(); }"),
        ("values_and_annotations", "package x; @A(a=1, b=\"s\", c) parcelable W { @B int a = 3; String s = \"x\"; int[] v = {1, 2}; List l; }"),
        ("codes", "package x; interface I { void a() = 0; void b() = 4294967295; oneway void c(in Map<String,String> m) = 7; }"),
        // every construct that may carry annotations / documentation / a value carries them (a field added to a node later shows up here)
        ("annotated_interface", "package x; /** i */ @A @B(k=1, s=\"v\", flag) oneway interface I { /** m */ @C @D(x=2) void f(/** a */ @E in @F(y=3) int[] a, @G String); /** c */ @H(z=\"z\") const String K = \"k\"; }"),
        ("annotated_parcelable", "package x; /** p */ @A(a=1) parcelable W { /** f */ @B @C(b=\"b\") List<String> f = {}; /** c */ @D const int K = -1; @E Map<String, W[]> m; }"),
        ("annotated_enum", "package x; /** e */ @Backing(type=\"int\") enum E2 { /** a */ @Deprecated A = 1, @Hide @SystemApi(client=\"x\") B, /** c */ C = \"c\", @X D = -.5f, }"),
        ("annotated_fwd", "package x; import a.b.C; import d.E; parcelable F1; parcelable g.F2; @A interface I { @B C f(@C in E e, out F1[] f, in g.F2 g); }"),
    ];
    let mut ok = true;
    for (n, s) in cases.iter() {
        ok &= roundtrip(n, s);
    }
    assert!(ok, "round trip witness found");
}
