// Bounded oracle for C01 (totality): generated texts of the families named in the property's quantifier are added to a parser
// and validated under catch_unwind; the result map must hold exactly one result per id, each tagged with its own id.
// BOUNDED (a deterministic generator; ORACLE_FULL=1 multiplies the case count) - a stand-in, never counted as proved.
use aidl_parser::Parser;
use std::panic;

struct Rng(u64);
impl Rng {
    fn next(&mut self) -> u64 { self.0 ^= self.0 << 13; self.0 ^= self.0 >> 7; self.0 ^= self.0 << 17; self.0 }
    fn below(&mut self, n: usize) -> usize { (self.next() % (n as u64)) as usize }
    fn pick<'a>(&mut self, v: &[&'a str]) -> &'a str { v[self.below(v.len())] }
}

// characters that matter to the byte/char arithmetic: multi-byte letters, Unicode white space, BOM, zero-width, line separators
const ODD: [&str; 20] = ["\u{e9}", "\u{df}", "\u{4e2d}", "\u{1f600}", "\u{a0}", "\u{2003}", "\u{2028}", "\u{2029}", "\u{feff}", "\u{200b}", "\u{85}", "\u{301}", "\u{ff11}", "\r", "\r\n", "\n", "\t", "\u{b}", "\u{c}", "\u{0}"];
const TOKENS: [&str; 60] = ["package", "import", "interface", "parcelable", "enum", "oneway", "const", "in", "out", "inout", "void", "int", "byte", "boolean", "String", "CharSequence",
    "List", "Map", "\"s\"", "\"\u{e9}\"", "true", "false", "@Ann", "@", ";", ",", "{", "}", "(", ")", "[", "]", "<", ">", "=", ".", "-", "class", "Foo", "a", "p.q", "a.b.C", "7", "007", "4294967296",
    "99999999999999999999999", "1.5f", "-1", "+", "/**", "*/", "/*", "//", "/** d */", "/* c */", "// l\n", "IBinder", "ParcelFileDescriptor", "\"", "'"];
const DOCS: [&str; 8] = [
    "package a.b; import c.D; /** doc \u{e9} */ @Ann(k=1) oneway interface I { /** m */ void f(in List<String> a, @nullable int[] b) = 7; const int K = 3; const String S = \"s\"; }",
    "package a; parcelable P { /** f */ int x = 1; List<Map<String, D[]>> l; const int K = -1; @A D d; }",
    "package a; /** e */ enum E { /** a */ A = 1, B, C = \"c\", }",
    "package a.b; parcelable Fwd;",
    "package p; import a.b.I; import a.P; interface J { I f(in P p, out P[] q, inout Map<String, P> m); oneway void g(IBinder b, in ParcelFileDescriptor fd) = 16777215; }",
    "// header\npackage p;\n/* block */\ninterface K {\n    /**\n     * Title \u{4e2d}\n     *\n     * @param x arg\n     */\n    String h(in CharSequence x);\n}\n",
    "package p; interface L { void f(); void f(); void g() = 1; void h() = 1; List<> l(); Map<String> m(); List<A,B> n(); }",
    "",
];

fn run_one(files: Vec<(u32, String)>, removed: Vec<u32>) -> Result<(), String> {
    let expect: Vec<u32> = { let mut ids: Vec<u32> = Vec::new(); for (id, _) in files.iter() { if !ids.contains(id) { ids.push(*id); } } ids.retain(|i| !removed.contains(i)); ids.sort(); ids };
    let r = panic::catch_unwind(move || {
        let mut p = Parser::new();
        for (id, text) in files.iter() { p.add_content(*id, text); }
        for id in removed.iter() { p.remove_content(*id); }
        let res = p.validate();
        let mut got: Vec<u32> = res.keys().cloned().collect(); got.sort();
        let tags_ok = res.iter().all(|(k, v)| v.id == *k);
        (got, tags_ok)
    });
    match r {
        Err(e) => Err(format!("PANIC: {}", e.downcast_ref::<String>().cloned().or_else(|| e.downcast_ref::<&str>().map(|s| s.to_string())).unwrap_or_default())),
        Ok((got, tags_ok)) => if got != expect { Err(format!("result ids {:?}, parser holds {:?}", got, expect)) } else if !tags_ok { Err("a result is tagged with another id".to_owned()) } else { Ok(()) },
    }
}

fn short(s: &str) -> String { let v: String = s.chars().take(300).collect(); format!("{:?}{}", v, if s.chars().count() > 300 { " ...(cut)" } else { "" }) }

#[test]
fn c01_totality() {
    panic::set_hook(Box::new(|_| {}));
    let full = std::env::var("ORACLE_FULL").map(|v| v == "1").unwrap_or(false);
    let scale = if full { 12 } else { 1 };
    let mut r = Rng(0x2545F4914F6CDD1D);
    let (mut n, mut bad) = (0usize, 0usize);
    let mut check = |what: &str, files: Vec<(u32, String)>, removed: Vec<u32>, n: &mut usize, bad: &mut usize| {
        *n += 1;
        let shown = files.iter().map(|(i, t)| format!("{}:{}", i, short(t))).collect::<Vec<_>>().join(" | ");
        if let Err(e) = run_one(files, removed) { if *bad < 8 { println!("WITNESS property=C01 {} ({}); files: {}", e, what, shown); } *bad += 1; }
    };
    // (a) character-level soups
    let alphabet: Vec<&str> = ODD.iter().cloned().chain(["a", "Z", "_", "0", "9", " ", ";", ",", "{", "}", "(", ")", "[", "]", "<", ">", "=", ".", "-", "+", "@", "\"", "/", "*", "\\", "'", "f"].iter().cloned()).collect();
    for _ in 0..400 * scale { let len = r.below(40); let s: String = (0..len).map(|_| r.pick(&alphabet)).collect(); check("character soup", vec![(0, s)], vec![], &mut n, &mut bad); }
    // (b) token-level soups with odd gaps
    for _ in 0..500 * scale {
        let len = r.below(30); let mut s = String::new();
        for _ in 0..len { s.push_str(r.pick(&TOKENS)); s.push_str(match r.below(6) { 0 => "", 1 => r.pick(&ODD), _ => " " }); }
        check("token soup", vec![(0, s)], vec![], &mut n, &mut bad);
    }
    // (c) well-formed documents with one odd character injected at EVERY character boundary in turn (token gaps, comments, docs,
    //     strings, inside tokens), and a leading / trailing odd character
    for d in DOCS.iter() {
        let cs: Vec<char> = d.chars().collect();
        for (oi, o) in ODD.iter().enumerate() {
            let step = if full { 1 } else { 5 };
            let mut k = oi % step;
            while k <= cs.len() {
                let s: String = cs[..k].iter().collect::<String>() + o + &cs[k..].iter().collect::<String>();
                check("one odd character injected", vec![(0, s)], vec![], &mut n, &mut bad);
                k += step;
            }
            check("leading odd character", vec![(0, format!("{}{}", o, d))], vec![], &mut n, &mut bad);
            check("leading odd character twice", vec![(0, format!("{}{}{}", o, o, d))], vec![], &mut n, &mut bad);
            check("trailing odd character", vec![(0, format!("{}{}", d, o))], vec![], &mut n, &mut bad);
        }
    }
    // (d) mutated documents: tokens deleted / duplicated / swapped, odd gaps
    for _ in 0..400 * scale {
        let d = DOCS[r.below(DOCS.len() - 1)];
        let mut toks: Vec<String> = d.split(' ').map(|s| s.to_string()).collect();
        for _ in 0..1 + r.below(3) {
            if toks.is_empty() { break; }
            let i = r.below(toks.len());
            match r.below(4) { 0 => { toks.remove(i); } 1 => { let t = toks[i].clone(); toks.insert(i, t); } 2 => { let j = r.below(toks.len()); toks.swap(i, j); } _ => { toks[i] = r.pick(&TOKENS).to_string(); } }
        }
        let gap = if r.below(3) == 0 { r.pick(&ODD) } else { " " };
        check("mutated document", vec![(0, toks.join(gap))], vec![], &mut n, &mut bad);
    }
    // (e) size and nesting: generic nesting up to depth 64, documents up to 64 KiB
    for depth in [1usize, 2, 8, 33, 64] {
        let t = format!("{}int{}", "List<".repeat(depth), ">".repeat(depth));
        let m = format!("{}String{}", "Map<String, ".repeat(depth), ">".repeat(depth));
        check("nesting", vec![(0, format!("package p; interface I {{ {} f(in {} a, out {}[] b); }}", t, m, t))], vec![], &mut n, &mut bad);
        check("nesting, unclosed", vec![(0, format!("package p; parcelable P {{ {}int x; }}", "List<".repeat(depth)))], vec![], &mut n, &mut bad);
    }
    let mut big = String::from("package p; interface Big {\n");
    let mut i = 0; while big.len() < 64 * 1024 - 64 { big.push_str(&format!("    /** m{} \u{e9} */ void m{}(in List<String> a{}) = {};\n", i, i, i, i)); i += 1; }
    big.push_str("}\n");
    check("64 KiB document", vec![(0, big.clone())], vec![], &mut n, &mut bad);
    check("64 KiB document, cut", vec![(0, big.chars().take(40000).collect())], vec![], &mut n, &mut bad);
    // (f) sets of up to 6 files: repeated ids (later content replaces earlier), removals, the same item defined twice
    for _ in 0..200 * scale {
        let k = 1 + r.below(6);
        let files: Vec<(u32, String)> = (0..k).map(|_| { let id = r.below(5) as u32; let d = DOCS[r.below(DOCS.len())]; let t = if r.below(3) == 0 { format!("{}{}", r.pick(&ODD), d) } else { d.to_string() }; (id, t) }).collect();
        let removed: Vec<u32> = (0..r.below(3)).map(|_| r.below(6) as u32).collect();
        check("file set", files, removed, &mut n, &mut bad);
    }
    println!("ORACLE-STATS evaluations={} distinct={} rule=add_content + validate under catch_unwind: no panic, exactly one result per id held, each tagged with its id; families: character soups, token soups, every-boundary injection of 20 odd characters (multi-byte, Unicode white space, BOM, zero-width, NUL) into 8 documents, mutated documents, nesting to depth 64, 64 KiB, file sets with repeated ids and removals", n, n);
    assert!(bad == 0, "witness found");
}
