// Witness for C05 (obligation C05.rule): a built-in stays that built-in whether or not the file also imports it.
use aidl_parser::ast::{AndroidTypeKind, InterfaceElement, Item, TypeKind};
use aidl_parser::Parser;

fn arg_kinds(src: &str) -> Vec<TypeKind> {
    let mut parser = Parser::new();
    parser.add_content(0, src);
    let res = parser.validate();
    let ast = res[&0].ast.as_ref().expect("tree");
    let mut v = Vec::new();
    if let Item::Interface(i) = &ast.item {
        for el in &i.elements {
            if let InterfaceElement::Method(m) = el {
                for a in &m.args {
                    v.push(a.arg_type.kind.clone());
                }
            }
        }
    }
    v
}

#[test]
fn c05_builtin_with_its_own_import() {
    let cases = [
        ("import android.os.ParcelFileDescriptor;", "ParcelFileDescriptor", AndroidTypeKind::ParcelFileDescriptor),
        ("import android.os.IBinder;", "IBinder", AndroidTypeKind::IBinder),
        ("import android.os.ParcelableHolder;", "ParcelableHolder", AndroidTypeKind::ParcelableHolder),
        ("", "IBinder", AndroidTypeKind::IBinder),
    ];
    let mut ok = true;
    for (imp, name, want) in cases.iter() {
        let src = format!("package x; {} interface I {{ void f(in {} p); }}", imp, name);
        let got = arg_kinds(&src);
        if got != vec![TypeKind::AndroidType(want.clone())] {
            println!("WITNESS source: {}  expected kind AndroidType({:?}), observed {:?}", src, want, got);
            ok = false;
        }
    }
    assert!(ok);
}
