// Bounded oracle for C14: one malformed member that ends at its normal terminator and contains no other terminator or brace
// costs only itself - a tree is still produced, every well-formed sibling before and after it appears in order and
// unchanged, at least one Error is reported and every syntax Error lies within the extent of the malformed member.
// Family: 3 body kinds x 4 positions among 3 well-formed siblings x a list of malformed members x 2 layouts.
use aidl_parser::ast::*;
use aidl_parser::diagnostic::DiagnosticKind;
use aidl_parser::Parser;

fn type_shape(t: &Type) -> String {
    match t.kind {
        TypeKind::Array => format!("A({})", t.generic_types.iter().map(type_shape).collect::<Vec<_>>().join(",")),
        TypeKind::List => if t.generic_types.is_empty() { "L".into() } else { format!("L({})", t.generic_types.iter().map(type_shape).collect::<Vec<_>>().join(",")) },
        TypeKind::Map => if t.generic_types.is_empty() { "M".into() } else { format!("M({})", t.generic_types.iter().map(type_shape).collect::<Vec<_>>().join(",")) },
        // the resolved kind is part of a sibling: it must be what it is without the malformed member
        _ => { if !t.generic_types.is_empty() { format!("{}!children", t.name) } else { format!("{}:{:?}", t.name, t.kind) } }
    }
}
fn ann_shape(a: &[Annotation]) -> String {
    a.iter().map(|x| { let mut kv: Vec<String> = x.key_values.iter().map(|(k, v)| format!("{}={}", k, v.clone().unwrap_or("-".into()))).collect(); kv.sort(); format!("{}[{}]", x.name, kv.join(";")) }).collect::<Vec<_>>().join(" ")
}
fn dir_shape(d: &Direction) -> &'static str { match d { Direction::In(_) => "in", Direction::Out(_) => "out", Direction::InOut(_) => "inout", Direction::Unspecified => "-" } }
fn imp_shape(i: &Import) -> String { format!("{}|{}", i.path, i.name) }
fn tree_shape(a: &Aidl, iface_oneway: bool) -> String {
    let mut s = format!("pkg {}\nimports {}\nfwd {}\n", a.package.name, a.imports.iter().map(imp_shape).collect::<Vec<_>>().join(","), a.declared_parcelables.iter().map(imp_shape).collect::<Vec<_>>().join(","));
    match &a.item {
        Item::Interface(i) => {
            s += &format!("interface {} oneway={} ann={}\n", i.name, i.oneway, ann_shape(&i.annotations));
            for e in &i.elements { match e {
                // validation turns every method of a oneway interface oneway: the written flag is not observable there
                InterfaceElement::Method(m) => s += &format!(" method {} oneway={} ret={} args=[{}] code={:?} ann={}\n", m.name, if iface_oneway { "*".to_string() } else { m.oneway.to_string() }, type_shape(&m.return_type),
                    m.args.iter().map(|x| format!("{} {} {} {}", dir_shape(&x.direction), type_shape(&x.arg_type), x.name.clone().unwrap_or("-".into()), ann_shape(&x.annotations))).collect::<Vec<_>>().join(", "), m.transact_code, ann_shape(&m.annotations)),
                InterfaceElement::Const(c) => s += &format!(" const {} {} = {} ann={}\n", type_shape(&c.const_type), c.name, c.value, ann_shape(&c.annotations)),
            } }
        }
        Item::Parcelable(p) => {
            s += &format!("parcelable {} ann={}\n", p.name, ann_shape(&p.annotations));
            for e in &p.elements { match e {
                ParcelableElement::Field(f) => s += &format!(" field {} {} = {} ann={}\n", type_shape(&f.field_type), f.name, f.value.clone().unwrap_or("-".into()), ann_shape(&f.annotations)),
                ParcelableElement::Const(c) => s += &format!(" const {} {} = {} ann={}\n", type_shape(&c.const_type), c.name, c.value, ann_shape(&c.annotations)),
            } }
        }
        Item::Enum(e) => {
            s += &format!("enum {} ann={}\n", e.name, ann_shape(&e.annotations));
            for el in &e.elements { s += &format!(" element {} = {}\n", el.name, el.value.clone().unwrap_or("-".into())); }
        }
    }
    s
}


fn parse(src: &str) -> (Option<String>, Vec<(usize, usize, String)>) {
    let mut p = Parser::new();
    p.add_content(0, src);
    let res = p.validate();
    let fr = &res[&0];
    // syntax Errors only: what the recovery productions and the top-level parse error produce (validation has its own messages)
    let syntax = |m: &str| m.starts_with("Invalid item") || m.starts_with("Invalid interface element") || m.starts_with("Invalid parcelable element") || m.starts_with("Invalid enum element")
        || m.starts_with("Unrecognized") || m.starts_with("Invalid token") || m.starts_with("Extra token");
    let errs = fr.diagnostics.iter().filter(|d| d.kind == DiagnosticKind::Error && syntax(&d.message)).map(|d| (d.range.start.offset, d.range.end.offset, d.message.clone())).collect();
    (fr.ast.as_ref().map(|a| tree_shape(a, false)), errs)
}

#[test]
fn c14_all() {
    // (header, siblings, terminator of a member, closing)
    let bodies: [(&str, [&str; 3], &str, &str); 5] = [
        ("package p; interface I {", ["void a(in int x) = 1;", "const int K = 1;", "String b(out int[] y, inout List<String> z) = 7;"], ";", "}"),
        ("package p; parcelable P {", ["int a;", "const String S = \"s\";", "List<String> b = 3;"], ";", "}"),
        ("package p; enum E {", ["A = 1,", "B,", "C = \"c\","], ",", "}"),
        // what validation adds to a sibling (resolved kinds, oneway inherited from the interface) is part of the sibling
        ("package p; parcelable Fwd; oneway interface J {", ["void a(in IBinder x, in Fwd f) = 1;", "const int K = 1;", "void b(in ParcelFileDescriptor y, in List<String> z) = 7;"], ";", "}"),
        ("package p; parcelable Fwd; parcelable Q {", ["IBinder a;", "const String S = \"s\";", "Fwd[] b;"], ";", "}"),
    ];
    // malformed members (without their terminator): none contains `;` `{` `}` (nor `,` - used for all three body kinds)
    let garbage = ["int", "void f(", "= 3", "in out", "String String x", "x y z", "void f(int a", "const int", "123", "\"str\"", "List<", "-", "f()", "oneway", "void f(int)) = 2", "int 5x", "\u{e9}", "@", "x = = 1", ")", "void void", "import a.b", "package q", "void interface foo()", "parcelable Inner", "enum", "interface I", "oneway interface", "x enum y", "@Marker (", "@Marker ( key =", "@A ( x", "@A ( k = 1", "@A @B ("];
    let mut out: Vec<String> = Vec::new();
    let mut evals = 0usize;
    for (head, sibs, term, close) in bodies.iter() {
        let full = std::env::var("ORACLE_FULL").map(|v| v == "1").unwrap_or(false);
        let seps: Vec<&str> = if full { vec![" ", "\n  ", "\r\n", " /* c */ ", " // l\n", "\t"] } else { vec![" ", "\n  "] };
        for sep in seps.iter() {
            let clean = format!("{}{}{}{}{}", head, sep, sibs.join(sep), sep, close);
            let (clean_shape, clean_errs) = parse(&clean);
            // validation Errors of the clean body (none expected in this family) are not syntax Errors
            if clean_shape.is_none() || !clean_errs.is_empty() { out.push(format!("WITNESS the well-formed body is not accepted cleanly: {:?}; source: {:?}", clean_errs, clean)); continue; }
            for g in garbage.iter() { for pos in 0..=3usize {
                evals += 1;
                let mut src = String::from(*head);
                let mut g_start = 0; let mut g_end = 0;
                for k in 0..=3usize {
                    if k == pos { src += sep; g_start = src.len(); src += g; src += term; g_end = src.len(); }
                    if k < 3 { src += sep; src += sibs[k]; }
                }
                src += sep; src += close;
                let (shape, errs) = parse(&src);
                let unlexable = g.chars().any(|c| !c.is_ascii()) || *g == "@";
                let open_ann = *term == "," && g.starts_with('@') && g.contains('(') && !g.trim_end().ends_with('(') && !g.trim_end().ends_with('=');
                let w0 = out.len();
                match shape {
                    None => out.push(format!("WITNESS {}malformed member {:?} at position {}: no tree ({:?}); source: {:?}", if unlexable { "(unlexable character) " } else { "" }, g, pos, errs.iter().map(|e| &e.2).collect::<Vec<_>>(), src)),
                    Some(s) => {
                        // the head lines (package, imports, forward declarations, item) and the well-formed siblings must be there, in
                        // order: `pos` of them before whatever the parser made of the malformed member, the others after it
                        let got: Vec<&str> = s.lines().collect();
                        let want: Vec<&str> = clean_shape.as_ref().unwrap().lines().collect();
                        let head_n = want.len() - 3;
                        let before_ok = got.len() >= want.len() && got[..head_n + pos] == want[..head_n + pos];
                        let after_ok = got.len() >= want.len() && got[got.len() - (3 - pos)..] == want[want.len() - (3 - pos)..];
                        if !before_ok || !after_ok {
                            out.push(format!("WITNESS malformed member {:?} at position {}: a well-formed sibling is missing or changed - members {:?}, expected {:?} around the malformed one; source: {:?}", g, pos, &got[head_n.min(got.len())..], &want[head_n..], src));
                        }
                    }
                }
                if errs.is_empty() { out.push(format!("WITNESS malformed member {:?} at position {}: no syntax Error reported; source: {:?}", g, pos, src)); }
                for (a, b, m) in errs.iter() {
                    if *a < g_start || *b > g_end { out.push(format!("WITNESS malformed member {:?} at position {} (extent {}..{}): Error {:?} at {}..{} lies outside it; source: {:?}", g, pos, g_start, g_end, m.chars().take(80).collect::<String>(), a, b, src)); }
                }
                if open_ann { for w in out[w0..].iter_mut() { *w = w.replacen("WITNESS ", "WITNESS (unclosed annotation parameters in an enum body) ", 1); } }
            } }
        }
    }
    let total = out.len();
    out.sort(); out.dedup();
    // lines of the recorded finding (unlexable character) last and capped separately, so that they never crowd out anything else
    let recorded = |w: &String| w.contains("(unlexable character)") || w.contains("(unclosed annotation parameters in an enum body)");
    for w in out.iter().filter(|w| !recorded(w)).take(60) { println!("{}", w.chars().take(700).collect::<String>()); }
    for w in out.iter().filter(|w| w.contains("(unlexable character)")).take(8) { println!("{}", w.chars().take(700).collect::<String>()); }
    for w in out.iter().filter(|w| w.contains("(unclosed annotation parameters in an enum body)")).take(8) { println!("{}", w.chars().take(700).collect::<String>()); }
    println!("ORACLE-STATS evaluations={} distinct={} rule=one body with one malformed member each: 5 bodies (3 kinds; two whose siblings need resolution / oneway propagation) x 2 layouts x 34 malformed members x 4 positions among 3 well-formed siblings; tree present, siblings' shape unchanged, at least one Error, every Error inside the malformed member's extent (witness lines: {})", evals, evals, total);
    assert!(out.is_empty(), "witness found");
}
