// Bounded oracle for C17: the key under which a file's item is registered, the qualified name of its item symbol, the qualified
// name of an import of it and what a resolved reference to it stores are ONE string - for every item name (including names that
// coincide with Android built-ins), every package depth, every item kind, every written form of the reference (simple,
// partially and fully qualified) and every position / nesting of the reference.
use aidl_parser::ast::*;
use aidl_parser::symbol::Symbol;
use aidl_parser::traverse::{self, SymbolFilter};
use aidl_parser::Parser;

#[test]
fn c17_keys() {
    let names = ["Foo", "IBinder", "ParcelableHolder", "FileDescriptor", "ParcelFileDescriptor", "String2", "List_", "foo"];
    let pkgs = ["p", "p.q", "com.example.deep", "android.os2"];
    let kinds = ["interface", "parcelable", "enum"];
    let (mut n, mut bad) = (0usize, 0usize);
    for name in names.iter() { for pkg in pkgs.iter() { for (ki, kind) in kinds.iter().enumerate() {
        let body = match *kind { "interface" => "{ void f(); }", "parcelable" => "{ int x; }", _ => "{ A, B }" };
        let def = format!("package {}; {} {} {}", pkg, kind, name, body);
        let key = format!("{}.{}", pkg, name);
        // written forms of the reference: simple, last-two-segments (when there are two), fully qualified
        let mut forms = vec![name.to_string(), key.clone()];
        if let Some(i) = pkg.rfind('.') { forms.push(format!("{}.{}", &pkg[i + 1..], name)); }
        for form in forms.iter() {
            let user = format!("package user; import {}; parcelable U {{ {} a; List<{}> b; {}[] c; Map<String, {}> d; }}", key, form, form, form, form);
            let user_i = format!("package user; import {}; interface V {{ {} f(in {} x, in List<{}> y); }}", key, form, form, form);
            for u in [&user, &user_i].iter() {
                n += 1;
                let mut p = Parser::new();
                p.add_content(0u32, &def);
                p.add_content(1u32, u);
                let res = p.validate();
                let (d_ast, u_ast) = match (res[&0].ast.as_ref(), res[&1].ast.as_ref()) { (Some(a), Some(b)) => (a, b), _ => { println!("WITNESS property=C17 no tree; files: {:?} | {:?}", def, u); bad += 1; continue; } };
                let mut problems: Vec<String> = Vec::new();
                if d_ast.get_key() != key { problems.push(format!("key of the defining file is {:?}", d_ast.get_key())); }
                // the item symbol and the import symbol
                let item_q = traverse::find_symbol(d_ast, SymbolFilter::ItemsOnly, |s| matches!(s, Symbol::Interface(..) | Symbol::Parcelable(..) | Symbol::Enum(..))).and_then(|s| s.get_qualified_name());
                if item_q.as_deref() != Some(key.as_str()) { problems.push(format!("qualified name of the item symbol is {:?}", item_q)); }
                let imp_q = traverse::find_symbol(u_ast, SymbolFilter::All, |s| matches!(s, Symbol::Import(_))).and_then(|s| s.get_qualified_name());
                if imp_q.as_deref() != Some(key.as_str()) { problems.push(format!("qualified name of the import symbol is {:?}", imp_q)); }
                // every reference written `form` (at any depth) stores the key and says so as a symbol
                let want_kind = match ki { 0 => ResolvedItemKind::Interface, 1 => ResolvedItemKind::Parcelable, _ => ResolvedItemKind::Enum };
                let mut refs = 0;
                traverse::walk_symbols(u_ast, SymbolFilter::All, |s| {
                    if let Symbol::Type(t) = s {
                        if t.name == *form {
                            refs += 1;
                            match &t.kind { TypeKind::ResolvedItem(k, kd) if *k == key && *kd == want_kind => (), other => problems.push(format!("reference `{}` is classified {:?}", form, other)) }
                            let q = s.get_qualified_name();
                            if q.as_deref() != Some(key.as_str()) { problems.push(format!("qualified name of the type symbol `{}` is {:?}", form, q)); }
                        }
                    }
                });
                if refs < 3 { problems.push(format!("only {} references named `{}` were visited", refs, form)); }
                if !problems.is_empty() {
                    problems.sort(); problems.dedup();
                    if bad < 8 { println!("WITNESS property=C17 expected the one string {:?} everywhere, but: {}; files: {:?} | {:?}", key, problems.join("; "), def, u); }
                    bad += 1;
                }
            }
        }
    } } }
    println!("ORACLE-STATS evaluations={} distinct={} rule=8 item names (4 coincide with Android built-ins) x 4 packages x 3 item kinds x up to 3 written forms x 2 user files: key == item symbol == import symbol == every resolved reference (kind and stored key) == its type symbol's qualified name", n, n);
    assert!(bad == 0, "witness found");
}
