// Bounded oracle for the part of C03 no contract reaches (generated LALR tables + regex lexer): an enumerated family of
// malformed documents must each yield at least one Error (and a result without a tree always carries one), the
// well-formed frames none; no stored user identifier is a keyword / reserved word or contains a non-ASCII character.
use aidl_parser::ast::*;
use aidl_parser::diagnostic::DiagnosticKind;
use aidl_parser::Parser;

fn errors(src: &str) -> (usize, bool, Vec<String>) {
    let mut p = Parser::new();
    p.add_content(0, src);
    let res = p.validate();
    let fr = &res[&0];
    let mut names = Vec::new();
    if let Some(a) = &fr.ast {
        names.extend(a.package.name.split('.').map(|s| s.to_owned()));
        for i in a.imports.iter().chain(a.declared_parcelables.iter()) { names.extend(i.path.split('.').filter(|s| !s.is_empty()).map(|s| s.to_owned())); names.push(i.name.clone()); }
        match &a.item {
            Item::Interface(i) => { names.push(i.name.clone()); for el in &i.elements { match el {
                InterfaceElement::Method(m) => { names.push(m.name.clone()); for x in &m.args { if let Some(n) = &x.name { names.push(n.clone()); } } }
                InterfaceElement::Const(c) => names.push(c.name.clone()) } } }
            Item::Parcelable(p) => { names.push(p.name.clone()); for el in &p.elements { match el { ParcelableElement::Field(f) => names.push(f.name.clone()), ParcelableElement::Const(c) => names.push(c.name.clone()) } } }
            Item::Enum(e) => { names.push(e.name.clone()); for el in &e.elements { names.push(el.name.clone()); } }
        }
    }
    (fr.diagnostics.iter().filter(|d| d.kind == DiagnosticKind::Error).count(), fr.ast.is_some(), names)
}

#[test]
fn c03_all() {
    let mut ok = true;
    let mut n = 0usize;
    let good = [
        "package a.b; interface I { void f(in String s, int x); const int K = 1; }",
        "package a; parcelable P { int x; String s = \"v\"; }",
        "package a; enum E { A = 1, B, }",
        "package a;\r\n/* c */ // l\n @Ann(x=1) oneway interface I { oneway void f() = 3; }",
    ];
    for g in good.iter() {
        n += 1;
        let (e, tree, _) = errors(g);
        if e != 0 || !tree { println!("WITNESS well-formed document reported {} Error(s), tree={}; source: {:?}", e, tree, g); ok = false; }
    }
    let keywords = ["package", "import", "interface", "parcelable", "enum", "oneway", "const", "in", "out", "inout", "void", "int", "boolean", "String", "CharSequence", "List", "Map", "true", "false"];
    let reserved = ["break", "case", "catch", "class", "continue", "default", "do", "else", "for", "goto", "if", "new", "private", "protected", "public", "return", "static", "switch", "this", "throw", "try", "volatile", "while"];
    let non_ascii = ["Caf\u{e9}", "table\u{661}", "stra\u{df}e", "B\u{3b2}", "\u{e9}cole", "x\u{200d}y", "a\u{301}b", "n\u{ff11}", "\u{4e2d}", "q\u{d7}"];
    let mut bad: Vec<String> = Vec::new();
    for w in keywords.iter().chain(reserved.iter()).chain(non_ascii.iter()) {
        bad.push(format!("package a.{}; interface I {{ void f(); }}", w));
        bad.push(format!("package a; interface {} {{ void f(); }}", w));
        bad.push(format!("package a; interface I {{ void {}(); }}", w));
        bad.push(format!("package a; interface I {{ void f(int {}); }}", w));
        bad.push(format!("package a; enum E {{ {} = 1 }}", w));
        bad.push(format!("package a; parcelable P {{ int {}; }}", w));
        bad.push(format!("package a; import x.{}; interface I {{ }}", w));
    }
    for s in ["interface I { }", "package a; interface I { } interface J { }", "package a; interface I { } trailing", "package a; interface I { } }", "package a; enum E { A = 1 } , B , }",
              "package a; interface I { void f() }", "package a; interface I { String s = \"unterminated; }", "package a; /* open comment interface I { }", "", "package a;",
              "package a; interface I { void f(int a ; void g(); }", "package a; parcelable P { int x } }", "package a; interface I { void f(); } ;"].iter() { bad.push(s.to_string()); }
    // near misses of the grammar: one piece missing or doubled (each must be reported; checked below with the structural ones)
    let near = ["package a; import Foo; interface I { }", "package ; interface I { }", "package a; interface I", "package a; interface I { void f; }", "package a; interface I { void f(int); void g(, int a); }",
                "package a; parcelable P { int; }", "package a; enum E { A = , B }", "package a; @A( interface I { }", "package a; interface I { const int K; }", "package a; interface I { void f(in); }",
                "package a; parcelable P { List<> l; }", "package a; parcelable P { Map<String> m; }", "package a; parcelable P { int[ a; }", "package a; interface I { oneway oneway void f(); }",
                "package a; interface I { void f() = ; }", "package a; interface I { void f() = x; }", "package a; import a..B; interface I { }", "package a.; interface I { }", "package a; parcelable P { int a = ; }",
                "package a; interface I { in int f(); }", "package a; interface { }", "package a; parcelable P { Map<String, , int> m; }", "package a; enum E { A B }", "package a; interface I { void f(int a int b); }",
                // order of the header statements and of the item: package, imports, forward declarations, ONE item, nothing after it
                "package a; parcelable X; import a.Y; interface I { }", "package a; import a.Y; parcelable X; import a.Z; interface I { }", "package a; import a.Y; @A parcelable X; import a.Z; interface I { }",
                "import a.Y; package a; interface I { }", "package a; package b; interface I { }", "package a; interface I { } import a.Y;", "package a; interface I { } parcelable X;", "package a; import a.Y interface I { }",
                "package a; parcelable X interface I { }", "package a; oneway parcelable P { int a; }", "package a; oneway enum E { A }", "package a; interface I { } package a;", "parcelable X; package a; interface I { }"];
    let structural = 13 + near.len();
    for s in near.iter() { bad.push(s.to_string()); }
    for b in bad.iter() {
        n += 1;
        // `in`, `out`, `inout`, `int`, ... in some slots form other well-formed phrases; the oracle only demands an Error when
        // the stored tree would otherwise contain the offending word as a user identifier, or when there is no tree
        let (e, tree, names) = errors(b);
        if !tree && e == 0 { println!("WITNESS no tree and no Error; source: {:?}", b); ok = false; }
        let offending: Vec<&String> = names.iter().filter(|x| keywords.contains(&x.as_str()) || reserved.contains(&x.as_str()) || !x.is_ascii()).collect();
        if !offending.is_empty() { println!("WITNESS stored identifier(s) {:?} are keywords / reserved words / non-ASCII; errors={} source: {:?}", offending, e, b); ok = false; }
    }
    for b in bad.iter().rev().take(structural) {
        let (e, _, _) = errors(b);
        if e == 0 { println!("WITNESS malformed document reported free of syntax errors; source: {:?}", b); ok = false; }
    }
    for w in non_ascii.iter() {
        for b in [format!("package a; interface {} {{ void f(); }}", w), format!("package a; interface I {{ void f(int {}); }}", w)].iter() {
            let (e, _, _) = errors(b);
            if e == 0 { println!("WITNESS non-ASCII character outside comments and strings accepted silently; source: {:?}", b); ok = false; }
        }
    }
    // layout: every shape of block / line comment is skipped where layout may appear, and ends where it ends - a document that
    // is malformed once the comments are taken out stays malformed
    let comments = ["/**/", "/***/", "/****/", "/* x */", "/* x **/", "/** doc **/", "/* a * b */", "/* a ** b * / c */", "/*/ */", "/* \u{e9} \u{4e2d} */", "/*\n * x\n **/", "// l\n", "//\n", "/* // */", "// /* \n"];
    for c in comments.iter() {
        for c2 in comments.iter().take(7) {
            n += 2;
            let good = format!("package a.b; {} interface I {{ {} void f(); }} {}", c, c2, c);
            let (e, tree, names) = errors(&good);
            if e != 0 || !tree || names != ["a", "b", "I", "f"] { println!("WITNESS well-formed document with comments {:?} / {:?}: {} Error(s), tree={}, names {:?}; source: {:?}", c, c2, e, tree, names, good); ok = false; }
            let bad = format!("package a.b; {} interface Old {{ }} {} interface New {{ }}", c, c2);
            let (e, _, _) = errors(&bad);
            if e == 0 { println!("WITNESS two items separated by comments {:?} / {:?} reported free of syntax errors; source: {:?}", c, c2, bad); ok = false; }
        }
    }
    println!("ORACLE-STATS evaluations={} distinct={} rule=one malformed or well-formed document each: 15 x 7 comment shapes around and inside an item; keywords / reserved words / non-ASCII words in 7 name slots; structural errors (several items, trailing text, stray braces, unterminated string / comment, empty)", n, n);
    assert!(ok, "witness found");
}
