// IN-CRATE bounded oracle for C20 (appended to a scratch copy of the crate as a cfg(test) module): the formatter is handed
// expectation sets of every size 0..=40 through the three entry points the parser uses (UnrecognizedEOF, UnrecognizedToken,
// recovered error) and the message must name exactly the set. Here the set is KNOWN (we supply it), which no black-box test
// can know: the generated parser's own sets are LALR-approximate and never visible through the public API.
use crate::diagnostic::Diagnostic;
use crate::rules::aidl::Token;

fn named_tokens(msg: &str) -> Vec<String> {
    let tail = match msg.split("Expected ").nth(1) { Some(t) => t, None => return Vec::new() };
    let tail = tail.strip_prefix("one of ").unwrap_or(tail);
    let b: Vec<char> = tail.chars().collect();
    let mut out = Vec::new();
    let mut i = 0;
    while i < b.len() {
        if b[i] == '"' { let mut j = i + 1; while j < b.len() && b[j] != '"' { j += 1; } out.push(b[i..=j.min(b.len() - 1)].iter().collect()); i = j + 1; }
        else if b[i].is_ascii_uppercase() { let mut j = i; while j < b.len() && (b[j].is_ascii_uppercase() || b[j] == '_' || b[j].is_ascii_digit()) { j += 1; } out.push(b[i..j].iter().collect()); i = j; }
        else { i += 1; }
    }
    out
}

#[test]
fn c20_formatter_all_sizes() {
    // 40 distinct token names in the two shapes the generated parser uses: quoted literals and upper-case names
    let mut names: Vec<String> = [";", ",", "{", "}", "(", ")", "[", "]", "<", ">", "=", ".", "-"].iter().map(|s| format!("\"{}\"", s)).collect();
    for n in ["ANNOTATION", "BOOLEAN", "CHAR_SEQUENCE", "CONST", "DIRECTION", "ENUM", "FLOAT", "IDENT", "IMPORT", "INTEGER", "INTERFACE", "LIST", "MAP", "ONEWAY",
              "PACKAGE", "PARCELABLE", "PRIMITIVE", "QUOTED_STRING", "RESERVED_KEYWORD", "STRING", "VOID", "T1", "T2", "T3", "T4", "T5", "T6"] { names.push(n.to_string()); }
    let text = "abc";
    let lookup = line_col::LineColLookup::new(text);
    let (mut evals, mut bad, mut known) = (0usize, 0usize, 0usize);
    for n in 0..=names.len() {
        for rot in [0usize, 7, 19] {
            let set: Vec<String> = (0..n).map(|i| names[(i + rot) % names.len()].clone()).collect();
            for entry in 0..3 {
                let e = match entry {
                    0 => lalrpop_util::ParseError::UnrecognizedEOF { location: 3, expected: set.clone() },
                    _ => lalrpop_util::ParseError::UnrecognizedToken { token: (0, Token(0, "a"), 1), expected: set.clone() },
                };
                let d = if entry == 2 { Diagnostic::from_error_recovery("Invalid item", &lookup, lalrpop_util::ErrorRecovery { error: e, dropped_tokens: Vec::new() }) }
                        else { Diagnostic::from_parse_error(&lookup, e) };
                evals += 1;
                let d = match d { Some(d) => d, None => { println!("WITNESS property=C20 no diagnostic for an expectation set of size {} (entry {})", n, entry); bad += 1; continue; } };
                let got = named_tokens(&d.message);
                let missing: Vec<&String> = set.iter().filter(|t| !got.contains(t)).collect();
                let extra: Vec<&String> = got.iter().filter(|t| !set.contains(t)).collect();
                let dup = got.len() != { let mut g = got.clone(); g.sort(); g.dedup(); g.len() };
                if missing.is_empty() && extra.is_empty() && !dup { continue; }
                if n >= 3 && extra.is_empty() && !dup && missing.len() == 1 && *missing[0] == set[n - 2] {
                    // exactly the recorded defect and nothing else
                    if known < 2 { println!("WITNESS property=C20 (last-but-one expected token dropped) size {}: {:?} does not name {:?}", n, d.message, missing[0]); }
                    known += 1;
                    continue;
                }
                if bad < 6 { println!("WITNESS property=C20 expectation set of size {} (entry {}): message {:?} misses {:?}, adds {:?}{}", n, entry, d.message, missing, extra, if dup { ", names a token twice" } else { "" }); }
                bad += 1;
            }
        }
    }
    println!("ORACLE-STATS evaluations={} distinct={} rule=in-crate: the message built for a supplied expectation set (sizes 0..=40, three rotations, EOF / token / recovered entry points) names exactly that set; deviations other than the recorded one: {}; the recorded one: {}", evals, evals, bad, known);
    assert!(bad == 0 && known == 0, "witness found");
}
