// Witness finder / replayer for C11: equal inputs give equal outputs (fresh hash seeds per run), diagnostics ascending by start.
use aidl_parser::Parser;

fn run(files: &[(u32, &str)], order: &[usize]) -> Vec<(u32, String)> {
    let mut parser = Parser::new();
    for &k in order { parser.add_content(files[k].0, files[k].1); }
    let res = parser.validate();
    let mut v: Vec<(u32, String)> = res.iter().map(|(id, fr)| (*id, format!("{:?} || {:?}", fr.ast, fr.diagnostics))).collect();
    v.sort();
    v
}

#[test]
fn c11_all() {
    let mut ok = true;
    let projects: Vec<Vec<(u32, &str)>> = vec![
        vec![(0, "package p; import a.Foo; import b.Foo; import c.Foo; import d.Foo; interface I { void f(in Foo x); }")],
        vec![(0, "package p; import a.Foo; import b.Foo; import c.Foo; parcelable Foo; interface I { void f(in Foo x); }")],
        vec![(0, "package p; import a.Foo; import b.Foo; import c.Foo; import d.Foo; import e.Foo; parcelable Foo; parcelable x.Foo; interface I { void f(); }")],
        vec![(0, "package p; import q.A; interface I { void f(in A x); }"), (1, "package q; parcelable A { int x; }"), (2, "package q; interface A { }"), (3, "package q; enum A { X }")],
        vec![(0, "package p; import a.B; import c.D; import e.F; import g.H; interface I { Foo f(); Bar g(); }")],
        // the same item defined by several files, every pair of kinds (the kind importers see must not depend on the run)
        vec![(0, "package p; import q.A; interface I { void f(in A x, out A y, A z); }"), (1, "package q; parcelable A { int x; }"), (2, "package q; enum A { X }")],
        vec![(0, "package p; import q.A; interface I { void f(in A x, out A y, A z); }"), (1, "package q; enum A { X }"), (2, "package q; interface A { }")],
        vec![(0, "package p; import q.A; interface I { void f(in A x, out A y, A z); }"), (1, "package q; interface A { }"), (2, "package q; parcelable A { int x; }")],
        vec![(0, "package p; import q.A; interface I { void f(in A x, out A[] y, in List<A> z); }"), (1, "package q; parcelable A { int x; }"), (2, "package q; enum A { X }"), (3, "package q; parcelable A { String s; }"), (4, "package q; enum A { Y, Z }")],
    ];
    for (pi, files) in projects.iter().enumerate() {
        let n = files.len();
        let base_order: Vec<usize> = (0..n).collect();
        let first = run(files, &base_order);
        for rep in 0..40 {
            let mut order = base_order.clone();
            order.rotate_left(rep % n.max(1));
            if rep % 2 == 1 { order.reverse(); }
            let again = run(files, &order);
            if again != first {
                let (a, b) = first.iter().zip(again.iter()).find(|(a, b)| a != b).unwrap();
                println!("WITNESS project {} run {} (insertion order {:?}) differs from run 0 for file {}:\n   run0: {}\n   run{}: {}", pi, rep, order, a.0, &a.1[a.1.find("||").unwrap()..].chars().take(700).collect::<String>(), rep, &b.1[b.1.find("||").unwrap()..].chars().take(700).collect::<String>());
                ok = false;
                break;
            }
        }
    }
    // ascending start positions, several diagnostics on one line
    for src in ["package p; import a.B; interface I { Foo f(); }", "package p; import a.B; import a.B; parcelable X; interface I { Foo f(in Bar b, out int c); List g(); }"].iter() {
        let mut parser = Parser::new();
        parser.add_content(0, src);
        let res = parser.validate();
        let starts: Vec<(usize, usize)> = res[&0].diagnostics.iter().map(|d| d.range.start.line_col).collect();
        let mut sorted = starts.clone();
        sorted.sort();
        if starts != sorted { println!("WITNESS diagnostics not ascending by start position: {:?}; source: {:?}", starts, src); ok = false; }
    }
    assert!(ok, "witness found");
}
