// HAND-WRITTEN executable mirrors of the `ensures` clauses of the trusted shims (contracts/prelude*.rs), run on generated
// inputs by tools/shimtest.py (the shims themselves are copied mechanically above this text). `check_NAME` mirrors shim NAME.
// Spec functions are mirrored over Vec<char> exactly as written in the prelude (same recursion).
// BOUNDED: a deterministic generator, CASES cases per shim. A failure here means an assumed contract is false.

const CASES: usize = 4000;

struct Rng(u64);
impl Rng {
    fn next(&mut self) -> u64 { self.0 ^= self.0 << 13; self.0 ^= self.0 >> 7; self.0 ^= self.0 << 17; self.0 }
    fn below(&mut self, n: usize) -> usize { (self.next() % (n as u64)) as usize }
    fn ch(&mut self) -> char {
        const A: [char; 14] = ['a', 'b', 'A', '.', ' ', '\n', '\r', '0', '9', 'é', 'ß', '中', '😀', '\u{2028}'];
        A[self.below(A.len())]
    }
    fn string(&mut self, max: usize) -> String { let n = self.below(max + 1); (0..n).map(|_| self.ch()).collect() }
    fn strings(&mut self, maxn: usize, maxl: usize) -> Vec<String> { let n = self.below(maxn + 1); (0..n).map(|_| self.string(maxl)).collect() }
}
fn cs(s: &str) -> Vec<char> { s.chars().collect() }

// ---- mirrors of the spec functions ----
fn join_spec(v: &[Vec<char>], sep: &[char]) -> Vec<char> {
    if v.is_empty() { vec![] } else if v.len() == 1 { v[0].clone() } else {
        let mut r = join_spec(&v[..v.len() - 1], sep); r.extend_from_slice(sep); r.extend_from_slice(&v[v.len() - 1]); r
    }
}
fn seq_ends_with(s: &[char], suf: &[char]) -> bool { s.len() >= suf.len() && s[s.len() - suf.len()..] == *suf }
fn utf8_len(c: char) -> usize { let u = c as u32; if u < 0x80 { 1 } else if u < 0x800 { 2 } else if u < 0x10000 { 3 } else { 4 } }
fn byte_len(s: &[char]) -> usize { if s.is_empty() { 0 } else { byte_len(&s[..s.len() - 1]) + utf8_len(s[s.len() - 1]) } }
fn somes<T: Clone>(v: &[Option<T>]) -> Vec<T> {
    if v.is_empty() { vec![] } else { let mut r = somes(&v[..v.len() - 1]); if let Some(x) = &v[v.len() - 1] { r.push(x.clone()); } r }
}
fn pairs_map(v: &[(String, Option<String>)]) -> HashMap<String, Option<String>> {
    if v.is_empty() { HashMap::new() } else { let mut m = pairs_map(&v[..v.len() - 1]); let l = &v[v.len() - 1]; m.insert(l.0.clone(), l.1.clone()); m }
}
fn key_le(a: (usize, usize), b: (usize, usize)) -> bool { a.0 < b.0 || (a.0 == b.0 && a.1 <= b.1) }

// ---- the checks ----
fn check_vec_from1(r: &mut Rng) { let x = r.string(4); assert_eq!(vec_from1(x.clone()), vec![x]); }
fn check_vec_from_arr(r: &mut Rng) { let a = [r.string(3), r.string(3), r.string(3)]; assert_eq!(vec_from_arr(a.clone()), a.to_vec()); }
fn check_string_eq_str(r: &mut Rng) { let a = r.string(3); let b = r.string(3); assert_eq!(string_eq_str(&a, &b), cs(&a) == cs(&b)); assert!(string_eq_str(&a, &a.clone())); }
fn check_string_eq(r: &mut Rng) { let a = r.string(3); let b = r.string(3); assert_eq!(string_eq(&a, &b), cs(&a) == cs(&b)); assert!(string_eq(&a, &a.clone())); }
fn check_str_eq(r: &mut Rng) { let a = r.string(3); let b = r.string(3); assert_eq!(str_eq(&a, &b), cs(&a) == cs(&b)); }
fn check_slice_join(r: &mut Rng) {
    let v = r.strings(5, 4); let sep = r.string(2);
    let vc: Vec<Vec<char>> = v.iter().map(|s| cs(s)).collect();
    assert_eq!(cs(&slice_join(&v, &sep)), join_spec(&vc, &cs(&sep)));
}
fn check_vec_str_join(r: &mut Rng) {
    let v = r.strings(5, 4); let sep = r.string(2);
    let vs: Vec<&str> = v.iter().map(|s| s.as_str()).collect();
    let vc: Vec<Vec<char>> = v.iter().map(|s| cs(s)).collect();
    assert_eq!(cs(&vec_str_join(&vs, &sep)), join_spec(&vc, &cs(&sep)));
}
fn check_str_ends_with(r: &mut Rng) {
    let a = r.string(6); let suf = if r.below(2) == 0 { r.string(3) } else { let c = cs(&a); let k = r.below(c.len() + 1); c[k..].iter().collect() };
    assert_eq!(str_ends_with(&a, &suf), seq_ends_with(&cs(&a), &cs(&suf)));
}
fn check_string_ends_with(r: &mut Rng) {
    let a = r.string(6); let suf: String = if r.below(2) == 0 { r.string(3) } else { let c = cs(&a); let k = r.below(c.len() + 1); c[k..].iter().collect() };
    assert_eq!(string_ends_with(&a, &suf), seq_ends_with(&cs(&a), &cs(&suf)));
}
fn check_str_contains_char(r: &mut Rng) { let a = r.string(6); let c = r.ch(); assert_eq!(str_contains_char(&a, c), cs(&a).contains(&c)); }
fn check_string_contains_char(r: &mut Rng) { let a = r.string(6); let c = r.ch(); assert_eq!(string_contains_char(&a, c), cs(&a).contains(&c)); }
fn check_string_ref_to_owned(r: &mut Rng) { let a = r.string(6); assert_eq!(string_ref_to_owned(&a), a); }
fn check_string_from_str(r: &mut Rng) { let a = r.string(6); assert_eq!(cs(&string_from_str(&a)), cs(&a)); }
fn check_into_string(r: &mut Rng) { let a = r.string(6); assert_eq!(cs(&into_string(a.as_str())), cs(&a)); assert_eq!(cs(&into_string(a.clone())), cs(&a)); }
fn check_clone_eq(r: &mut Rng) { let a = r.string(6); assert_eq!(clone_eq(&a), a); let p = (r.below(9), r.string(2)); assert_eq!(clone_eq(&p), p); }
fn check_vec_into_find(r: &mut Rng) {
    let v = r.strings(6, 2); let c = r.ch();
    let p = |x: &String| x.contains(c);
    match vec_into_find(v.clone(), p) {
        Some(x) => { let i = v.iter().position(|y| *y == x && p(y)).unwrap(); assert!(v[..i].iter().all(|y| !p(y))); }
        None => assert!(v.iter().all(|y| !p(y))),
    }
}
fn check_hs_iter_find(r: &mut Rng) {
    let s: HashSet<String> = r.strings(6, 2).into_iter().collect(); let c = r.ch();
    match hs_iter_find(&s, |x: &&String| x.contains(c)) {
        Some(x) => assert!(s.contains(x) && x.contains(c)),
        None => assert!(s.iter().all(|y| !y.contains(c))),
    }
}
fn check_hs_iter_filter_min(r: &mut Rng) {
    let s: HashSet<String> = r.strings(6, 2).into_iter().collect(); let c = r.ch();
    match hs_iter_filter_min(&s, |x: &&String| x.contains(c)) {
        Some(x) => assert!(s.contains(x) && x.contains(c) && s.iter().all(|y| x <= y || !y.contains(c))),
        None => assert!(s.iter().all(|y| !y.contains(c))),
    }
}
fn check_hm_iter_filter_min_key(r: &mut Rng) {
    let m: HashMap<String, usize> = r.strings(6, 2).into_iter().map(|k| (k, r.below(3))).collect(); let c = r.ch(); let w = r.below(3);
    let p = |x: &(&String, &usize)| x.0.contains(c) || *x.1 == w;
    match hm_iter_filter_min_key(&m, p) {
        Some(kv) => assert!(m.get(kv.0) == Some(kv.1) && p(&kv) && m.iter().all(|y| kv.0 <= y.0 || !p(&y))),
        None => assert!(m.iter().all(|y| !p(&y))),
    }
}
fn check_hm_into_vec(r: &mut Rng) {
    let m: HashMap<String, usize> = r.strings(6, 2).into_iter().map(|k| (k, r.below(3))).collect();
    let v = hm_into_vec(m.clone());
    assert_eq!(v.len(), m.len());
    for (i, (k, x)) in v.iter().enumerate() { assert_eq!(m.get(k), Some(x)); assert!(v[..i].iter().all(|(k2, _)| k2 != k)); }
}
fn check_hm_map_collect(r: &mut Rng) {
    // f may send several entries to one key (the later replaces the earlier): the contract must hold for such f too
    let m: HashMap<String, usize> = r.strings(6, 2).into_iter().map(|k| (k, r.below(5))).collect();
    let cut = r.below(3);
    let f = |(k, v): (String, usize)| (k.chars().take(cut).collect::<String>(), v * 10 + k.chars().count());
    let out = hm_map_collect(m.clone(), f);
    for (k2, v2) in out.iter() { assert!(m.iter().any(|(k, v)| f((k.clone(), *v)) == (k2.clone(), *v2))); }
    for (k, v) in m.iter() { assert!(out.contains_key(&f((k.clone(), *v)).0)); }
    // key-preserving f (the use site in validate): one entry per key, each the image of its own entry
    let g = |(k, v): (String, usize)| (k, v + 1);
    let out = hm_map_collect(m.clone(), g);
    assert_eq!(out.len(), m.len());
    for (k, v) in m.iter() { assert_eq!(out.get(k), Some(&(v + 1))); }
}
fn sort_case(r: &mut Rng) -> Vec<(usize, usize, usize)> { let n = r.below(9); (0..n).map(|i| (r.below(3), r.below(3), i)).collect() }
fn check_vec_sort_by_key_2(r: &mut Rng) {
    let pre = sort_case(r); let mut v = pre.clone();
    vec_sort_by_key_2(&mut v, |x: &(usize, usize, usize)| (x.0, x.1));
    let mut a = pre.clone(); a.sort(); let mut b = v.clone(); b.sort(); assert_eq!(a, b); // same multiset
    for i in 0..v.len() { for j in i + 1..v.len() {
        assert!(key_le((v[i].0, v[i].1), (v[j].0, v[j].1)));
        if (v[i].0, v[i].1) == (v[j].0, v[j].1) { assert!(v[i].2 < v[j].2); } // stability: original index (third field) ascending
    } }
}
fn check_vec_sort_unstable_by_key_2(r: &mut Rng) {
    let pre = sort_case(r); let mut v = pre.clone();
    vec_sort_unstable_by_key_2(&mut v, |x: &(usize, usize, usize)| (x.0, x.1));
    let mut a = pre.clone(); a.sort(); let mut b = v.clone(); b.sort(); assert_eq!(a, b);
    for i in 0..v.len() { for j in i + 1..v.len() { assert!(key_le((v[i].0, v[i].1), (v[j].0, v[j].1))); } }
}
fn check_hm_clone(r: &mut Rng) { let m: HashMap<String, usize> = r.strings(6, 2).into_iter().map(|k| (k, r.below(3))).collect(); assert_eq!(hm_clone(&m), m); }
fn check_str_len(r: &mut Rng) { let a = r.string(8); assert_eq!(str_len(&a), byte_len(&cs(&a))); }
fn check_char_len_utf8(r: &mut Rng) {
    let c = r.ch(); assert_eq!(char_len_utf8(c), utf8_len(c));
    for u in [0u32, 0x7f, 0x80, 0x7ff, 0x800, 0xffff, 0x10000, 0x10ffff, 0xd7ff, 0xe000] { let c = char::from_u32(u).unwrap(); assert_eq!(char_len_utf8(c), utf8_len(c)); }
}
fn check_str_slice(r: &mut Rng) {
    // requires: a, b are the byte offsets in front of characters i <= j: no panic, and the result is the characters i..j
    let s = r.string(8); let c = cs(&s); let j = r.below(c.len() + 1); let i = r.below(j + 1);
    let (a, b) = (byte_len(&c[..i]), byte_len(&c[..j]));
    assert_eq!(cs(str_slice(&s, a, b)), c[i..j].to_vec());
    assert_eq!(cs(str_prefix(&s, b)), c[..j].to_vec());
}
fn check_str_prefix(r: &mut Rng) { check_str_slice(r) }
fn check_vec_flatten(r: &mut Rng) {
    let n = r.below(7); let v: Vec<Option<String>> = (0..n).map(|_| if r.below(2) == 0 { None } else { Some(r.string(2)) }).collect();
    assert_eq!(vec_flatten(v.clone()), somes(&v));
}
fn check_opt_str_to_owned(r: &mut Rng) {
    let s = r.string(4); assert_eq!(opt_str_to_owned(None), None); assert_eq!(opt_str_to_owned(Some(&s)).map(|x| cs(&x)), Some(cs(&s)));
}
fn num_text(r: &mut Rng) -> String {
    const T: [&str; 12] = ["0", "1", "007", "4294967295", "4294967296", "+5", "-1", "", " 1", "1 ", "12a", "99999999999999999999"];
    if r.below(3) == 0 { r.string(3) } else { T[r.below(T.len())].to_string() }
}
fn check_str_parse_u32(r: &mut Rng) {
    // spec_parse_u32 is uninterpreted: what is assumed is that the result is a FUNCTION of the text
    let t = num_text(r); let a = str_parse_u32(&t); let b = str_parse_u32(&t.clone());
    assert_eq!(a.is_ok(), b.is_ok()); if let (Ok(x), Ok(y)) = (&a, &b) { assert_eq!(x, y); }
}
fn check_opt_parse_transact_code(r: &mut Rng) {
    let t = num_text(r); let p = r.below(1000);
    assert!(opt_parse_transact_code(None).is_none());
    let got = opt_parse_transact_code(Some((p, &t))).unwrap(); let direct = str_parse_u32(&t);
    assert_eq!(got.0, p); assert_eq!(got.1.is_ok(), direct.is_ok()); if let (Ok(x), Ok(y)) = (&got.1, &direct) { assert_eq!(x, y); }
}
fn check_fmt_transact_code_error(_r: &mut Rng) { let e = "x".parse::<u32>().unwrap_err(); let _ = fmt_transact_code_error(e); } // no postcondition: returns
fn check_opt_pairs_to_map(r: &mut Rng) {
    assert!(opt_pairs_to_map(None).is_empty());
    let n = r.below(6); let v: Vec<(String, Option<String>)> = (0..n).map(|_| (r.string(1), if r.below(2) == 0 { None } else { Some(r.string(2)) })).collect();
    assert_eq!(opt_pairs_to_map(Some(v.clone())), pairs_map(&v));
}
// the line_col dependency (prelude_env.rs: LineColLookup::get_by_cluster requires pos_ok = "index <= len on a char boundary"):
// no panic at any such index, for texts with multi-byte characters and every line ending
fn check_line_col(r: &mut Rng) {
    let s = r.string(12); let l = line_col::LineColLookup::new(&s);
    let mut off = 0; let mut prev = (1usize, 1usize);
    for c in s.chars().map(Some).chain(std::iter::once(None)) {
        let lc = l.get_by_cluster(off);
        assert!(lc.0 >= 1 && lc.1 >= 1 && lc >= prev || lc.0 > prev.0, "line/col not monotone at {} in {:?}", off, s);
        prev = lc;
        if let Some(c) = c { off += c.len_utf8(); }
    }
}

macro_rules! run { ($r:expr, $total:expr, $($f:ident),* $(,)?) => { $( for _ in 0..CASES { $f($r); } $total += CASES; println!("shim {} ok ({} cases)", &stringify!($f)[6..], CASES); )* } }

#[test]
fn shim_conformance() {
    let mut r = Rng(0x9E3779B97F4A7C15);
    let mut total = 0usize;
    run!(&mut r, total,
        check_vec_from1, check_vec_from_arr, check_string_eq_str, check_string_eq, check_str_eq, check_slice_join, check_vec_str_join,
        check_str_ends_with, check_string_ends_with, check_str_contains_char, check_string_contains_char, check_string_ref_to_owned,
        check_string_from_str, check_into_string, check_clone_eq, check_vec_into_find, check_hs_iter_find, check_hs_iter_filter_min,
        check_hm_iter_filter_min_key, check_hm_into_vec, check_hm_map_collect, check_vec_sort_by_key_2, check_vec_sort_unstable_by_key_2,
        check_hm_clone, check_str_len, check_char_len_utf8, check_str_slice, check_str_prefix, check_vec_flatten, check_opt_str_to_owned,
        check_str_parse_u32, check_opt_parse_transact_code, check_fmt_transact_code_error, check_opt_pairs_to_map, check_line_col);
    println!("SHIMTEST cases={} failures=0", total);
}
