// Bounded oracle for C02: a well-formed document yields a tree that mirrors it, whatever the layout.
// Documents are generated from a small description (independent reference: the description renders BOTH the token list and
// the expected shape of the tree); every document is laid out with 8 separators and once compactly (no layout where tokens cannot run together) between all tokens (spaces, tabs, LF, CRLF,
// block comments with multi-byte text, line comments). The shape ignores positions, documentation and what validation adds
// (resolved kinds, propagated oneway), exactly as the statement does.
use aidl_parser::ast::*;
use aidl_parser::Parser;

#[derive(Clone)]
enum T { Leaf(Vec<&'static str>), Arr(Box<T>), List(Option<Box<T>>), Map(Option<(Box<T>, Box<T>)>) }
impl T {
    fn toks(&self, out: &mut Vec<String>) {
        match self {
            T::Leaf(v) => out.extend(v.iter().map(|s| s.to_string())),
            T::Arr(e) => { e.toks(out); out.push("[".into()); out.push("]".into()); }
            T::List(None) => out.push("List".into()),
            T::List(Some(e)) => { out.push("List".into()); out.push("<".into()); e.toks(out); out.push(">".into()); }
            T::Map(None) => out.push("Map".into()),
            T::Map(Some((k, v))) => { out.push("Map".into()); out.push("<".into()); k.toks(out); out.push(",".into()); v.toks(out); out.push(">".into()); }
        }
    }
    fn shape(&self) -> String {
        match self {
            T::Leaf(v) => v.concat(),
            T::Arr(e) => format!("A({})", e.shape()),
            T::List(None) => "L".into(),
            T::List(Some(e)) => format!("L({})", e.shape()),
            T::Map(None) => "M".into(),
            T::Map(Some((k, v))) => format!("M({},{})", k.shape(), v.shape()),
        }
    }
}
fn leaf(s: &'static str) -> T { T::Leaf(vec![s]) }
fn qual(v: &[&'static str]) -> T { let mut o = Vec::new(); for (i, s) in v.iter().enumerate() { if i > 0 { o.push("."); } o.push(*s); } T::Leaf(o) }
fn arr(t: T) -> T { T::Arr(Box::new(t)) }
fn list(t: T) -> T { T::List(Some(Box::new(t))) }
fn map(k: T, v: T) -> T { T::Map(Some((Box::new(k), Box::new(v)))) }

fn type_shape(t: &Type) -> String {
    match t.kind {
        TypeKind::Array => format!("A({})", t.generic_types.iter().map(type_shape).collect::<Vec<_>>().join(",")),
        TypeKind::List => if t.generic_types.is_empty() { "L".into() } else { format!("L({})", t.generic_types.iter().map(type_shape).collect::<Vec<_>>().join(",")) },
        TypeKind::Map => if t.generic_types.is_empty() { "M".into() } else { format!("M({})", t.generic_types.iter().map(type_shape).collect::<Vec<_>>().join(",")) },
        _ => { if !t.generic_types.is_empty() { format!("{}!children", t.name) } else { t.name.clone() } }
    }
}
fn ann_shape(a: &[Annotation]) -> String {
    a.iter().map(|x| { let mut kv: Vec<String> = x.key_values.iter().map(|(k, v)| format!("{}={}", k, v.clone().unwrap_or("-".into()))).collect(); kv.sort(); format!("{}[{}]", x.name, kv.join(";")) }).collect::<Vec<_>>().join(" ")
}
fn dir_shape(d: &Direction) -> &'static str { match d { Direction::In(_) => "in", Direction::Out(_) => "out", Direction::InOut(_) => "inout", Direction::Unspecified => "-" } }
fn imp_shape(i: &Import) -> String { format!("{}|{}", i.path, i.name) }
fn tree_shape(a: &Aidl, iface_oneway: bool) -> String {
    let mut s = format!("pkg {}\nimports {}\nfwd {}\n", a.package.name, a.imports.iter().map(imp_shape).collect::<Vec<_>>().join(","), a.declared_parcelables.iter().map(imp_shape).collect::<Vec<_>>().join(","));
    match &a.item {
        Item::Interface(i) => {
            s += &format!("interface {} oneway={} ann={}\n", i.name, i.oneway, ann_shape(&i.annotations));
            for e in &i.elements { match e {
                // validation turns every method of a oneway interface oneway: the written flag is not observable there
                InterfaceElement::Method(m) => s += &format!(" method {} oneway={} ret={} args=[{}] code={:?} ann={}\n", m.name, if iface_oneway { "*".to_string() } else { m.oneway.to_string() }, type_shape(&m.return_type),
                    m.args.iter().map(|x| format!("{} {} {} {}", dir_shape(&x.direction), type_shape(&x.arg_type), x.name.clone().unwrap_or("-".into()), ann_shape(&x.annotations))).collect::<Vec<_>>().join(", "), m.transact_code, ann_shape(&m.annotations)),
                InterfaceElement::Const(c) => s += &format!(" const {} {} = {} ann={}\n", type_shape(&c.const_type), c.name, c.value, ann_shape(&c.annotations)),
            } }
        }
        Item::Parcelable(p) => {
            s += &format!("parcelable {} ann={}\n", p.name, ann_shape(&p.annotations));
            for e in &p.elements { match e {
                ParcelableElement::Field(f) => s += &format!(" field {} {} = {} ann={}\n", type_shape(&f.field_type), f.name, f.value.clone().unwrap_or("-".into()), ann_shape(&f.annotations)),
                ParcelableElement::Const(c) => s += &format!(" const {} {} = {} ann={}\n", type_shape(&c.const_type), c.name, c.value, ann_shape(&c.annotations)),
            } }
        }
        Item::Enum(e) => {
            s += &format!("enum {} ann={}\n", e.name, ann_shape(&e.annotations));
            for el in &e.elements { s += &format!(" element {} = {}\n", el.name, el.value.clone().unwrap_or("-".into())); }
        }
    }
    s
}

struct Doc { toks: Vec<String>, shape: String, oneway_iface: bool }
fn push(v: &mut Vec<String>, xs: &[&str]) { v.extend(xs.iter().map(|s| s.to_string())); }

fn types() -> Vec<T> {
    vec![leaf("int"), leaf("String"), leaf("CharSequence"), leaf("Foo"), qual(&["x", "y", "Foo"]), leaf("Listing"), leaf("int_"), leaf("Mapx"), leaf("inout2"), leaf("IBinder"),
         arr(leaf("byte")), arr(arr(leaf("Foo"))), T::List(None), T::Map(None), list(leaf("String")), arr(list(qual(&["x", "Foo"]))), map(leaf("String"), arr(leaf("Foo"))),
         map(qual(&["a", "K"]), list(map(leaf("String"), arr(arr(leaf("long"))))))]
}
// value as written -> (tokens, text stored)
fn values() -> Vec<(Vec<&'static str>, &'static str)> {
    vec![(vec!["1"], "1"), (vec!["-.5f"], "-.5f"), (vec!["+12.25"], "+12.25"), (vec!["\"a b // c /* d\""], "\"a b // c /* d\""), (vec!["true"], "true"), (vec!["{", "}"], "{}"),
         (vec!["{", "1", "2", ",", "3", ",", "}"], "{...}"), (vec!["A", ".", "B"], "A.B"),
         // string literals: a backslash is an ordinary character, the literal ends at the next quote; every other printable character is verbatim
         (vec!["\"\\\""], "\"\\\""), (vec!["\"C:\\tmp\\\""], "\"C:\\tmp\\\""), (vec!["\"\\n\\\\\""], "\"\\n\\\\\""),
         (vec!["\"!#$%&'()*+,-./:;<=>?@[\\]^_`{|}~ \t\u{e9}\u{4e2d}\""], "\"!#$%&'()*+,-./:;<=>?@[\\]^_`{|}~ \t\u{e9}\u{4e2d}\""), (vec!["\"\""], "\"\"")]
}

fn interface_docs() -> Vec<Doc> {
    let mut docs = Vec::new();
    let ts = types();
    let vals = values();
    let full = std::env::var("ORACLE_FULL").map(|v| v == "1").unwrap_or(false);
    for (n, t) in ts.iter().enumerate() { for oneway_iface in [false, true] { for m in 0..(if full { ts.len() } else { 1 }) {
        let u = &ts[(n * 7 + 3 + m) % ts.len()];
        let (vt, vs) = &vals[n % vals.len()];
        let mut k = Vec::new();
        push(&mut k, &["package", "p", ".", "q2", ";", "import", "x", ".", "y", ".", "Foo", ";", "import", "a", ".", "K", ";", "parcelable", "Fwd", ";", "parcelable", "z", ".", "Other", ";"]);
        push(&mut k, &["@Ann", "@Two", "(", "k", "=", "1", ",", "flag", ",", "s", "=", "\"v w\"", ")"]);
        // a key written several times: the parameters are a map, the LAST occurrence is the one it holds (with or without a value)
        push(&mut k, &["@Rep", "(", "k", "=", "1", ",", "k", "=", "2", ",", "f", ",", "f", "=", "\"x\"", ",", "g", "=", "1", ",", "g", ")"]);
        if oneway_iface { push(&mut k, &["oneway"]); }
        push(&mut k, &["interface", "IListing", "{"]);
        // method 1: all directions, optional names, annotation on argument, transact code
        t.toks(&mut k); push(&mut k, &["first", "(", "in"]); u.toks(&mut k); push(&mut k, &["a", ",", "out"]); t.toks(&mut k); push(&mut k, &[",", "inout", "@Nullable"]); u.toks(&mut k); push(&mut k, &["inout2", ",", ]); t.toks(&mut k); push(&mut k, &[")", "=", "12", ";"]);
        // const with a value
        push(&mut k, &["const"]); u.toks(&mut k); push(&mut k, &["K_1", "="]); k.extend(vt.iter().map(|s| s.to_string())); push(&mut k, &[";"]);
        // method 2: oneway keyword, no args, trailing comma free; method 3: same name different case
        push(&mut k, &["@Deprecated", "oneway", "void", "voidy", "(", ")", ";"]);
        push(&mut k, &["void", "Voidy", "(", "in"]); t.toks(&mut k); push(&mut k, &["x", ",", ")", ";", "}"]);
        let mut s = String::from("pkg p.q2\nimports x.y|Foo,a|K\nfwd |Fwd,z|Other\n");
        s += &format!("interface IListing oneway={} ann=@Ann[] @Two[flag=-;k=1;s=\"v w\"] @Rep[f=\"x\";g=-;k=2]\n", oneway_iface);
        let ow = |b: bool| if oneway_iface { "*".to_string() } else { b.to_string() };
        s += &format!(" method first oneway={} ret={} args=[in {} a , out {} - , inout {} inout2 @Nullable[], - {} - ] code=Some(12) ann=\n", ow(false), t.shape(), u.shape(), t.shape(), u.shape(), t.shape());
        s += &format!(" const {} K_1 = {} ann=\n", u.shape(), vs);
        s += &format!(" method voidy oneway={} ret=void args=[] code=None ann=@Deprecated[]\n", ow(true));
        s += &format!(" method Voidy oneway={} ret=void args=[in {} x ] code=None ann=\n", ow(false), t.shape());
        docs.push(Doc { toks: k, shape: s, oneway_iface });
    } } }
    docs
}
fn parcelable_docs() -> Vec<Doc> {
    let mut docs = Vec::new();
    let ts = types();
    let vals = values();
    for (n, t) in ts.iter().enumerate() {
        let (vt, vs) = &vals[(n + 3) % vals.len()];
        let (vt2, vs2) = &vals[(n + 5) % vals.len()];
        let mut k = Vec::new();
        push(&mut k, &["package", "pkg", ";", "@JavaOnly", "parcelable", "Parcel_", "{"]);
        t.toks(&mut k); push(&mut k, &["field1", ";"]);
        push(&mut k, &["@Nullable"]); t.toks(&mut k); push(&mut k, &["oneway_", "="]); k.extend(vt.iter().map(|s| s.to_string())); push(&mut k, &[";"]);
        push(&mut k, &["const", "String", "NAME", "="]); k.extend(vt2.iter().map(|s| s.to_string())); push(&mut k, &[";", "}"]);
        let s = format!("pkg pkg\nimports \nfwd \nparcelable Parcel_ ann=@JavaOnly[]\n field {} field1 = - ann=\n field {} oneway_ = {} ann=@Nullable[]\n const String NAME = {} ann=\n", t.shape(), t.shape(), vs, vs2);
        docs.push(Doc { toks: k, shape: s, oneway_iface: false });
    }
    let mut k = Vec::new();
    push(&mut k, &["package", "e", ".", "f", ";", "@Backing", "(", "type", "=", "\"byte\"", ")", "enum", "Enumx", "{", "A", "=", "1", ",", "Bee", ",", "C_3", "=", "\"s\"", ",", "D", "=", "-.5f", ",", "}"]);
    docs.push(Doc { toks: k, shape: "pkg e.f\nimports \nfwd \nenum Enumx ann=@Backing[type=\"byte\"]\n element A = 1\n element Bee = -\n element C_3 = \"s\"\n element D = -.5f\n".into(), oneway_iface: false });
    let mut k = Vec::new();
    push(&mut k, &["package", "e", ";", "enum", "E", "{", "}"]);
    docs.push(Doc { toks: k, shape: "pkg e\nimports \nfwd \nenum E ann=\n".into(), oneway_iface: false });
    docs
}

#[test]
fn c02_all() {
    let seps = [" ", "  \t", "\n", "\r\n", " /* \u{e9}\u{4e2d} ; { */ ", " // c ; }\n", "/** banner **/", "/***/ /**/\t", " /* \" \\ */ ", " // \" \\\n", ""];
    let mut out: Vec<String> = Vec::new();
    let mut evals = 0usize;
    let mut docs = interface_docs();
    docs.extend(parcelable_docs());
    let ndocs = docs.len();
    for d in docs.iter() {
        for sep in seps.iter() {
            evals += 1;
            // "" = compact: no layout at all wherever the two neighbouring tokens cannot run into each other
            let src = if sep.is_empty() {
                let mut o = String::new();
                for (k, t) in d.toks.iter().enumerate() {
                    if k > 0 {
                        let (a, b) = (d.toks[k - 1].chars().last().unwrap(), t.chars().next().unwrap());
                        let word = |c: char| c.is_alphanumeric() || c == '_' || c == '.' || c == '+' || c == '-' || c == '@' || c == '"';
                        if word(a) && word(b) { o.push(' '); }
                    }
                    o += t;
                }
                o
            } else { d.toks.join(sep) };
            let mut p = Parser::new();
            p.add_content(0, &src);
            let res = p.validate();
            let fr = &res[&0];
            match &fr.ast {
                None => out.push(format!("WITNESS well-formed document has no tree ({:?}); source: {:?}", fr.diagnostics.iter().map(|x| x.message.clone()).collect::<Vec<_>>(), src)),
                Some(a) => {
                    let got = tree_shape(a, d.oneway_iface);
                    if got != d.shape {
                        let (g, e): (Vec<&str>, Vec<&str>) = (got.lines().collect(), d.shape.lines().collect());
                        let k = (0..g.len().max(e.len())).find(|&i| g.get(i) != e.get(i)).unwrap();
                        out.push(format!("WITNESS tree does not mirror the document: line {} of the shape is {:?}, expected {:?}; source: {:?}", k, g.get(k), e.get(k), src));
                    }
                }
            }
            if out.len() > 40 { break; }
        }
    }
    out.sort(); out.dedup();
    for w in out.iter().take(12) { println!("{}", w.chars().take(900).collect::<String>()); }
    println!("ORACLE-STATS evaluations={} distinct={} rule=one document in one layout each: {} generated documents (18 type shapes in return / argument / field / constant position, 13 value forms (string literals with backslashes and every printable ASCII character), annotations with parameters, near-keyword names, qualified names written with spaces) x 10 separators between all tokens (two with a quote and a backslash inside a comment) + compact; the tree's shape (no positions, no documentation, no resolved kinds) must equal the shape rendered from the same description", evals, evals, ndocs);
    assert!(out.is_empty(), "witness found");
}
