// Witness finder / replayer for C18 and C01(c): documentation attached to constructs, for Unicode content.
use aidl_parser::ast::*;
use aidl_parser::Parser;
use std::panic;

fn doc_of_first_member(src: &str) -> Result<(Option<String>, Option<String>), String> {
    let s = src.to_owned();
    let r = panic::catch_unwind(move || {
        let mut parser = Parser::new();
        parser.add_content(0, &s);
        let res = parser.validate();
        let ast = res[&0].ast.clone();
        ast.map(|a| match a.item {
            Item::Interface(i) => (i.doc.clone(), i.elements.get(0).and_then(|e| match e { InterfaceElement::Method(m) => m.doc.clone(), InterfaceElement::Const(c) => c.doc.clone() })),
            Item::Parcelable(p) => (p.doc.clone(), p.elements.get(0).and_then(|e| match e { ParcelableElement::Field(f) => f.doc.clone(), ParcelableElement::Const(c) => c.doc.clone() })),
            Item::Enum(e) => (e.doc.clone(), e.elements.get(0).and_then(|x| x.doc.clone())),
        })
    });
    match r {
        Ok(Some(x)) => Ok(x),
        Ok(None) => Err("no tree".to_owned()),
        Err(e) => Err(format!("PANIC: {}", e.downcast_ref::<String>().cloned().or_else(|| e.downcast_ref::<&str>().map(|s| s.to_string())).unwrap_or_default())),
    }
}

// the documentation of one construct of a document built from a frame (see `frames` below)
fn doc_of(src: &str, kind: &str) -> Result<Option<String>, String> {
    let s = src.to_owned();
    let k = kind.to_owned();
    let r = panic::catch_unwind(move || {
        let mut parser = Parser::new();
        parser.add_content(0, &s);
        let res = parser.validate();
        if res[&0].diagnostics.iter().any(|d| d.kind == aidl_parser::diagnostic::DiagnosticKind::Error) { return Err(format!("unexpected Error diagnostics {:?}", res[&0].diagnostics.iter().map(|d| d.message.clone()).collect::<Vec<_>>())); }
        let a = match res[&0].ast.clone() { Some(a) => a, None => return Err("no tree".to_owned()) };
        Ok(match (k.as_str(), a.item) {
            ("item-interface", Item::Interface(i)) => i.doc,
            ("item-parcelable", Item::Parcelable(p)) => p.doc,
            ("item-enum", Item::Enum(e)) => e.doc,
            ("method", Item::Interface(i)) => match &i.elements[1] { InterfaceElement::Method(m) => m.doc.clone(), _ => return Err("not a method".into()) },
            ("const", Item::Interface(i)) => match &i.elements[1] { InterfaceElement::Const(c) => c.doc.clone(), _ => return Err("not a const".into()) },
            ("arg", Item::Interface(i)) => match &i.elements[0] { InterfaceElement::Method(m) => m.args[1].doc.clone(), _ => return Err("not a method".into()) },
            ("field", Item::Parcelable(p)) => match &p.elements[1] { ParcelableElement::Field(f) => f.doc.clone(), _ => return Err("not a field".into()) },
            ("enum-element", Item::Enum(e)) => e.elements[1].doc.clone(),
            _ => return Err("frame and tree disagree".into()),
        })
    });
    match r {
        Ok(x) => x,
        Err(e) => Err(format!("PANIC: {}", e.downcast_ref::<String>().cloned().or_else(|| e.downcast_ref::<&str>().map(|s| s.to_string())).unwrap_or_default())),
    }
}

#[test]
fn c18_all() {
    panic::set_hook(Box::new(|_| {}));
    let words = ["word", "é", "中文", "😀", "naïve café"];
    let gaps = ["", " ", "\n", "\r\n", " /* plain */ ", " // line\n", " /* é中 */ "];
    let mut ok = true;
    let mut n = 0;
    for w in words.iter() {
        for g in gaps.iter() {
            for pre in ["", "/** other */ x; ", "/* é */ x; "].iter() {
                // item doc
                let src = format!("package p; /**{}*/{}interface I {{ {}/** m {} */{}void f(); }}", w, g, pre.replace("x;", "void z();"), w, g);
                n += 1;
                match doc_of_first_member(&src) {
                    Ok((idoc, _)) => {
                        if idoc.as_deref() != Some(*w) {
                            println!("WITNESS item doc = {:?}, expected {:?}; source: {:?}", idoc, w, src); ok = false;
                        }
                    }
                    Err(e) => { println!("WITNESS {} ; source: {:?}", e, src); ok = false; }
                }
            }
        }
    }
    // ---- every documentable construct x gap shapes (ordinary comments whose text holds any punctuation but '/' and '*') ----
    let frames: [(&str, &str, &str); 8] = [
        ("item-interface", "package p; ", "interface I { void z(); }"),
        ("item-parcelable", "package p; ", "parcelable P { int z; }"),
        ("item-enum", "package p; ", "enum E { Z }"),
        ("method", "package p; interface I { void a(); ", "void f(); }"),
        ("const", "package p; interface I { void a(); ", "const int K = 1; }"),
        ("arg", "package p; interface I { void f(int a, ", "int b); }"),
        ("field", "package p; parcelable P { int a; ", "int x; }"),
        ("enum-element", "package p; enum E { A, ", "B }"),
    ];
    let mut gaps2: Vec<String> = ["", " ", "\n", "\r\n  ", " /* plain */ ", " // line\n", " // void foo(int a);\n", " // OLD = 0,\r\n", " // enum Old {\n", " // }\n", " // call(\n",
        " /* a; b, {c} (d) */\n", " // é中;\n", " // one\n // two;\n", " /* x */ // y,\n /* z( */ ", " //\n", " /**/ ", " // x\r\n\r\n"].iter().map(|s| s.to_string()).collect();
    for c in ";,{}()[]<>=.-@\"'#!$%^&~|\\?:+_".chars() { gaps2.push(format!(" // a{}\n", c)); gaps2.push(format!(" /* a{} */ ", c)); gaps2.push(format!(" // {}b\n", c)); }
    let full = std::env::var("ORACLE_FULL").map(|v| v == "1").unwrap_or(false);
    for (fi, (kind, before, after)) in frames.iter().enumerate() {
        for (gi, g) in gaps2.iter().enumerate() {
            // the quick tier pairs every gap with two frames (rotating), the thorough tier takes the full product
            if !full && gi >= 18 && (gi + fi) % 4 != 0 { continue; }
            for ann in ["", "@Ann ", "@Ann(k=1) @B "].iter() {
                if !full && !ann.is_empty() && (gi + fi) % 3 != 0 { continue; }
                let w = words[(gi + fi) % words.len()];
                // (what precedes the construct, the documentation it must get)
                let variants: [(String, Option<String>); 6] = [
                    (format!("/** {} */{}", w, g), Some(w.to_string())),
                    (format!("{}", g), None),
                    (format!("/* {} */{}", w, g), None),
                    (format!("/** one */ /** {} */{}", w, g), Some(w.to_string())),
                    (format!("/** {} */ /* between */{}", w, g), Some(w.to_string())),
                    (format!("/** {} */ // between\n{}", w, g), Some(w.to_string())),
                ];
                for (pre, want) in variants.iter() {
                    let src = format!("{}{}{}{}", before, pre, ann, after);
                    n += 1;
                    match doc_of(&src, kind) {
                        Ok(got) => if got != *want { println!("WITNESS {} doc = {:?}, expected {:?}; source: {:?}", kind, got, want, src); ok = false; },
                        Err(e) => { println!("WITNESS {} ; source: {:?}", e, src); ok = false; }
                    }
                }
            }
            // a doc comment that belongs to the PREVIOUS member never attaches to this one
            let prev = match *kind { "method" | "const" => Some(("package p; interface I { /** prev */ void a(); ", *after)), "field" => Some(("package p; parcelable P { /** prev */ int a; ", *after)),
                "enum-element" => Some(("package p; enum E { /** prev */ A, ", *after)), "arg" => Some(("package p; interface I { void f(/** prev */ int a, ", *after)), _ => None };
            if let Some((b, a)) = prev {
                let src = format!("{}{}{}", b, g, a);
                n += 1;
                match doc_of(&src, kind) {
                    Ok(got) => if got.is_some() { println!("WITNESS {} took the previous member's doc {:?}; source: {:?}", kind, got, src); ok = false; },
                    Err(e) => { println!("WITNESS {} ; source: {:?}", e, src); ok = false; }
                }
            }
        }
    }
    // a construct not directly preceded by a doc comment has none
    for src in ["package p; /** d */ import a.B; interface I {}", "package p; interface I { /** d */ void f(); void g(); }"].iter() {
        match doc_of_first_member(src) {
            Ok((idoc, mdoc)) => {
                if src.contains("import") && idoc.is_some() { println!("WITNESS doc {:?} attached across an import; source: {:?}", idoc, src); ok = false; }
                if !src.contains("import") && mdoc.as_deref() != Some("d") { println!("WITNESS member doc {:?}; source: {:?}", mdoc, src); ok = false; }
            }
            Err(e) => { println!("WITNESS {} ; source: {:?}", e, src); ok = false; }
        }
    }
    // normalisation: lines of a paragraph joined by single spaces, paragraphs and @tag clauses separated by newlines (LF and CRLF)
    for nl in ["\n", "\r\n"].iter() {
        let doc = format!("/**{nl} * Title é{nl} *{nl} * Details line1{nl} * détails 漢字 🙂{nl} * @param x the arg{nl} */", nl = nl);
        let src = format!("package p;{nl}{doc}{nl}interface I {{{nl}    {doc}{nl}    void f(int x);{nl}}}{nl}", nl = nl, doc = doc);
        let want = "Title é\nDetails line1 détails 漢字 🙂\n@param x the arg";
        n += 1;
        match doc_of_first_member(&src) {
            Ok((idoc, mdoc)) => {
                if idoc.as_deref() != Some(want) { println!("WITNESS item doc = {:?}, expected {:?} (line ending {:?})", idoc, want, nl); ok = false; }
                if mdoc.as_deref() != Some(want) { println!("WITNESS member doc = {:?}, expected {:?} (line ending {:?})", mdoc, want, nl); ok = false; }
            }
            Err(e) => { println!("WITNESS {} ; source: {:?}", e, src); ok = false; }
        }
    }
    // ---- normalisation against a description that renders BOTH the comment (in several physical layouts) and the expected text:
    // lines of a paragraph joined by single spaces, paragraphs separated by newlines, every @tag clause on a line of its own ----
    let paras: [&[&[&str]]; 5] = [
        &[&["Returns the size"]],
        &[&["Title \u{e9}"], &["Details line1", "d\u{e9}tails \u{6f22}\u{5b57} \u{1f642}"]],
        &[&["one", "two", "three"]],
        &[&["a b"], &["c"], &["d e", "f"]],
        &[],
    ];
    let tagsets: [&[&str]; 4] = [&[], &["@param key the key"], &["@param key the key", "@return size \u{e9}"], &["@deprecated"]];
    for ps in paras.iter() { for tags in tagsets.iter() {
        if ps.is_empty() && tags.is_empty() { continue; }
        let mut want = ps.iter().map(|lines| lines.join(" ")).collect::<Vec<_>>().join("\n");
        for t in tags.iter() { if !want.is_empty() { want.push('\n'); } want += t; }
        let mut layouts: Vec<(String, String)> = Vec::new();
        for nl in ["\n", "\r\n"].iter() {
            // decorated, one physical line per line of text, a ` *` line between paragraphs, tags on their own lines
            let mut body = String::new();
            for (i, lines) in ps.iter().enumerate() { if i > 0 { body += &format!(" *{}", nl); } for l in lines.iter() { body += &format!(" * {}{}", l, nl); } }
            for t in tags.iter() { body += &format!(" * {}{}", t, nl); }
            layouts.push((format!("decorated {:?}", nl), format!("/**{}{} */", nl, body)));
            // the same with every tag appended to the physical line in front of it
            if !tags.is_empty() && !ps.is_empty() {
                let mut body = String::new();
                for (i, lines) in ps.iter().enumerate() { if i > 0 { body += &format!(" *{}", nl); } for (j, l) in lines.iter().enumerate() {
                    let last = i + 1 == ps.len() && j + 1 == lines.len();
                    body += &format!(" * {}{}{}", l, if last { format!(" {}", tags.join(" ")) } else { String::new() }, nl); } }
                layouts.push((format!("tags behind the last line {:?}", nl), format!("/**{}{} */", nl, body)));
            }
            // text starting on the opening line
            if !ps.is_empty() {
                let mut body = String::new(); let mut first = true;
                for (i, lines) in ps.iter().enumerate() { if i > 0 { body += &format!(" *{}", nl); } for l in lines.iter() { if first { body += &format!(" {}{}", l, nl); first = false; } else { body += &format!(" * {}{}", l, nl); } } }
                for t in tags.iter() { body += &format!(" * {}{}", t, nl); }
                layouts.push((format!("text on the opening line {:?}", nl), format!("/**{} */", body)));
            }
        }
        // everything on one physical line (a single paragraph of one line, or tags only)
        if ps.len() <= 1 && ps.iter().all(|l| l.len() == 1) {
            let mut parts: Vec<String> = ps.iter().map(|l| l[0].to_string()).collect(); parts.extend(tags.iter().map(|t| t.to_string()));
            layouts.push(("one line".to_string(), format!("/** {} */", parts.join(" "))));
            layouts.push(("one line, tab before tags".to_string(), format!("/** {} */", parts.join("\t"))));
        }
        for (lname, doc) in layouts.iter() {
            for (kind, before, after) in [("method", "package p; interface I { void a(); ", "void f(int key); }"), ("item-enum", "package p; ", "enum E { Z }"), ("field", "package p; parcelable P { int a; ", "int x; }"), ("arg", "package p; interface I { void f(int a, ", "int b); }")].iter() {
                let src = format!("{}{} {}", before, doc, after);
                n += 1;
                match doc_of(&src, kind) {
                    Ok(got) => if got.as_deref() != Some(want.as_str()) { println!("WITNESS {} doc ({}) = {:?}, expected {:?}; source: {:?}", kind, lname, got, want, src); ok = false; },
                    Err(e) => { println!("WITNESS {} ; source: {:?}", e, src); ok = false; }
                }
            }
        }
    } }
    println!("cases: {}", n);
    assert!(ok, "witness found");
}
