// Witness finder / replayer for C18 and C01(c): documentation attached to constructs, for Unicode content.
use aidl_parser::ast::*;
use aidl_parser::Parser;
use std::panic;

fn doc_of_first_member(src: &str) -> Result<(Option<String>, Option<String>), String> {
    let s = src.to_owned();
    let r = panic::catch_unwind(move || {
        let mut parser = Parser::new();
        parser.add_content(0, &s);
        let res = parser.validate();
        let ast = res[&0].ast.clone();
        ast.map(|a| match a.item {
            Item::Interface(i) => (i.doc.clone(), i.elements.get(0).and_then(|e| match e { InterfaceElement::Method(m) => m.doc.clone(), InterfaceElement::Const(c) => c.doc.clone() })),
            Item::Parcelable(p) => (p.doc.clone(), p.elements.get(0).and_then(|e| match e { ParcelableElement::Field(f) => f.doc.clone(), ParcelableElement::Const(c) => c.doc.clone() })),
            Item::Enum(e) => (e.doc.clone(), e.elements.get(0).and_then(|x| x.doc.clone())),
        })
    });
    match r {
        Ok(Some(x)) => Ok(x),
        Ok(None) => Err("no tree".to_owned()),
        Err(e) => Err(format!("PANIC: {}", e.downcast_ref::<String>().cloned().or_else(|| e.downcast_ref::<&str>().map(|s| s.to_string())).unwrap_or_default())),
    }
}

#[test]
fn c18_all() {
    panic::set_hook(Box::new(|_| {}));
    let words = ["word", "é", "中文", "😀", "naïve café"];
    let gaps = ["", " ", "\n", "\r\n", " /* plain */ ", " // line\n", " /* é中 */ "];
    let mut ok = true;
    let mut n = 0;
    for w in words.iter() {
        for g in gaps.iter() {
            for pre in ["", "/** other */ x; ", "/* é */ x; "].iter() {
                // item doc
                let src = format!("package p; /**{}*/{}interface I {{ {}/** m {} */{}void f(); }}", w, g, pre.replace("x;", "void z();"), w, g);
                n += 1;
                match doc_of_first_member(&src) {
                    Ok((idoc, _)) => {
                        if idoc.as_deref() != Some(*w) {
                            println!("WITNESS item doc = {:?}, expected {:?}; source: {:?}", idoc, w, src); ok = false;
                        }
                    }
                    Err(e) => { println!("WITNESS {} ; source: {:?}", e, src); ok = false; }
                }
            }
        }
    }
    // a construct not directly preceded by a doc comment has none
    for src in ["package p; /** d */ import a.B; interface I {}", "package p; interface I { /** d */ void f(); void g(); }"].iter() {
        match doc_of_first_member(src) {
            Ok((idoc, mdoc)) => {
                if src.contains("import") && idoc.is_some() { println!("WITNESS doc {:?} attached across an import; source: {:?}", idoc, src); ok = false; }
                if !src.contains("import") && mdoc.as_deref() != Some("d") { println!("WITNESS member doc {:?}; source: {:?}", mdoc, src); ok = false; }
            }
            Err(e) => { println!("WITNESS {} ; source: {:?}", e, src); ok = false; }
        }
    }
    // normalisation: lines of a paragraph joined by single spaces, paragraphs and @tag clauses separated by newlines (LF and CRLF)
    for nl in ["\n", "\r\n"].iter() {
        let doc = format!("/**{nl} * Title é{nl} *{nl} * Details line1{nl} * détails 漢字 🙂{nl} * @param x the arg{nl} */", nl = nl);
        let src = format!("package p;{nl}{doc}{nl}interface I {{{nl}    {doc}{nl}    void f(int x);{nl}}}{nl}", nl = nl, doc = doc);
        let want = "Title é\nDetails line1 détails 漢字 🙂\n@param x the arg";
        n += 1;
        match doc_of_first_member(&src) {
            Ok((idoc, mdoc)) => {
                if idoc.as_deref() != Some(want) { println!("WITNESS item doc = {:?}, expected {:?} (line ending {:?})", idoc, want, nl); ok = false; }
                if mdoc.as_deref() != Some(want) { println!("WITNESS member doc = {:?}, expected {:?} (line ending {:?})", mdoc, want, nl); ok = false; }
            }
            Err(e) => { println!("WITNESS {} ; source: {:?}", e, src); ok = false; }
        }
    }
    println!("cases: {}", n);
    assert!(ok, "witness found");
}
