// Bounded oracle for C04: every reported range is exact, well-formed and properly nested, on an enumerated family of
// well-formed documents in several layouts (spaces, tabs, LF/CRLF, comments with multi-byte text between tokens).
use aidl_parser::ast::*;
use aidl_parser::Parser;

static mut EVALS: usize = 0;
fn ev() { unsafe { EVALS += 1; } }

fn line_col_of(src: &str, off: usize) -> (usize, usize) {
    // 1-based; columns counted in characters (the family contains no combining sequences)
    let before = &src[..off];
    let line = before.matches('\n').count() + 1;
    let col = before.rsplit('\n').next().unwrap().chars().count() + 1;
    (line, col)
}

fn wf(src: &str, r: &Range, what: &str, out: &mut Vec<String>) -> bool {
    ev();
    let (a, b) = (r.start.offset, r.end.offset);
    if !(a <= b && b <= src.len() && src.is_char_boundary(a) && src.is_char_boundary(b)) {
        out.push(format!("WITNESS {} range ({}, {}) is not a well-formed span of the {}-byte source", what, a, b, src.len()));
        return false;
    }
    if r.start.line_col != line_col_of(src, a) || r.end.line_col != line_col_of(src, b) {
        out.push(format!("WITNESS {} range ({}, {}) has line/col {:?}..{:?}, expected {:?}..{:?}", what, a, b, r.start.line_col, r.end.line_col, line_col_of(src, a), line_col_of(src, b)));
        return false;
    }
    true
}

fn text<'a>(src: &'a str, r: &Range) -> &'a str { &src[r.start.offset..r.end.offset] }
// a non-empty range starts on the first character of a token and ends on the last one (no layout at either end)
fn tight(src: &str, r: &Range, what: &str, out: &mut Vec<String>) {
    ev();
    let t = text(src, r);
    if t.is_empty() { return; }
    if t.trim() != t || t.starts_with("/*") || t.starts_with("//") || t.ends_with("*/") {
        out.push(format!("WITNESS {} range spans {:?}: it includes layout around the tokens; source: {:?}", what, t, src));
    }
}
fn inside(inner: &Range, outer: &Range) -> bool { outer.start.offset <= inner.start.offset && inner.end.offset <= outer.end.offset }
fn squash(s: &str) -> String {
    // remove whitespace and comments (layouts put them between tokens only)
    let mut out = String::new();
    let b: Vec<char> = s.chars().collect();
    let mut i = 0;
    while i < b.len() {
        if b[i] == '/' && i + 1 < b.len() && b[i + 1] == '*' { i += 2; while i + 1 < b.len() && !(b[i] == '*' && b[i + 1] == '/') { i += 1; } i += 2; continue; }
        if b[i] == '/' && i + 1 < b.len() && b[i + 1] == '/' { while i < b.len() && b[i] != '\n' { i += 1; } continue; }
        if !b[i].is_whitespace() { out.push(b[i]); }
        i += 1;
    }
    out
}

fn check_type(src: &str, t: &Type, out: &mut Vec<String>) {
    if !wf(src, &t.symbol_range, "type name", out) || !wf(src, &t.full_range, "type", out) { return; }
    tight(src, &t.symbol_range, "type name", out); tight(src, &t.full_range, "type", out);
    ev();
    if !inside(&t.symbol_range, &t.full_range) { out.push(format!("WITNESS type `{}`: name range {:?} not inside full range {:?}", t.name, text(src, &t.symbol_range), text(src, &t.full_range))); }
    let name_txt = squash(text(src, &t.symbol_range));
    match t.kind {
        TypeKind::Array => {
            let e = &t.generic_types[0];
            if wf(src, &e.full_range, "array element", out) && squash(text(src, &e.full_range)) != name_txt {
                out.push(format!("WITNESS array type: name range spans {:?}, expected its element type {:?}; source: {:?}", text(src, &t.symbol_range), text(src, &e.full_range), src));
            }
        }
        TypeKind::List | TypeKind::Map => { if name_txt != t.name { out.push(format!("WITNESS {} type: name range spans {:?}; source: {:?}", t.name, text(src, &t.symbol_range), src)); } }
        _ => { if name_txt != t.name { out.push(format!("WITNESS type `{}`: name range spans {:?}; source: {:?}", t.name, text(src, &t.symbol_range), src)); } }
    }
    let mut prev_end = t.full_range.start.offset;
    for c in &t.generic_types {
        check_type(src, c, out);
        ev();
        if !inside(&c.full_range, &t.full_range) { out.push(format!("WITNESS child type `{}` not inside its parent `{}`; source: {:?}", c.name, t.name, src)); }
        if c.full_range.start.offset < prev_end { out.push(format!("WITNESS sibling types overlap or are out of order in `{}`; source: {:?}", t.name, src)); }
        prev_end = c.full_range.end.offset;
    }
}

fn named(src: &str, name: &str, sym: &Range, full: &Range, what: &str, out: &mut Vec<String>) {
    if !wf(src, sym, what, out) || !wf(src, full, what, out) { return; }
    tight(src, sym, what, out); tight(src, full, what, out);
    ev();
    if squash(text(src, sym)) != name { out.push(format!("WITNESS {} `{}`: name range spans {:?}; source: {:?}", what, name, text(src, sym), src)); }
    if !inside(sym, full) { out.push(format!("WITNESS {} `{}`: name range not inside full range; source: {:?}", what, name, src)); }
}

fn check_doc(src: &str, out: &mut Vec<String>) { check_doc_opt(src, true, out) }
// must_have_tree = false: the text may be rejected (that is C03's business), but every range that IS reported indexes `src`
fn check_doc_opt(src: &str, must_have_tree: bool, out: &mut Vec<String>) {
    let mut p = Parser::new();
    p.add_content(0, src);
    let res = p.validate();
    let fr = &res[&0];
    for d in &fr.diagnostics {
        wf(src, &d.range, "diagnostic", out);
        for ri in &d.related_infos { wf(src, &ri.range, "related info", out); }
    }
    let ast = match &fr.ast { Some(a) => a, None => { if must_have_tree { out.push(format!("WITNESS well-formed document has no tree: {:?}; source: {:?}", fr.diagnostics.iter().map(|d| &d.message).collect::<Vec<_>>(), src)); } return; } };
    named(src, &ast.package.name, &ast.package.symbol_range, &ast.package.full_range, "package", out);
    for i in ast.imports.iter().chain(ast.declared_parcelables.iter()) {
        let q = if i.path.is_empty() { i.name.clone() } else { format!("{}.{}", i.path, i.name) };
        named(src, &q, &i.symbol_range, &i.full_range, "import", out);
    }
    let mut members: Vec<(&Range, String)> = Vec::new();
    let item_full;
    match &ast.item {
        Item::Interface(i) => {
            named(src, &i.name, &i.symbol_range, &i.full_range, "interface", out); item_full = &i.full_range;
            for el in &i.elements { match el {
                InterfaceElement::Method(m) => {
                    named(src, &m.name, &m.symbol_range, &m.full_range, "method", out); members.push((&m.full_range, m.name.clone()));
                    check_type(src, &m.return_type, out);
                    ev(); if !inside(&m.return_type.full_range, &m.full_range) { out.push(format!("WITNESS return type of `{}` outside the method range; source: {:?}", m.name, src)); }
                    if wf(src, &m.transact_code_range, "transact code", out) { tight(src, &m.transact_code_range, "transact code", out); }
                    if wf(src, &m.oneway_range, "oneway", out) { tight(src, &m.oneway_range, "oneway", out); }
                    let mut prev = m.full_range.start.offset;
                    for a in &m.args {
                        if let Some(n) = &a.name { named(src, n, &a.symbol_range, &a.full_range, "argument", out); } else { wf(src, &a.symbol_range, "argument", out); wf(src, &a.full_range, "argument", out); }
                        check_type(src, &a.arg_type, out);
                        ev();
                        if !inside(&a.full_range, &m.full_range) || !inside(&a.arg_type.full_range, &a.full_range) { out.push(format!("WITNESS argument of `{}` not nested properly; source: {:?}", m.name, src)); }
                        if a.full_range.start.offset < prev { out.push(format!("WITNESS arguments of `{}` overlap or are out of order; source: {:?}", m.name, src)); }
                        prev = a.full_range.end.offset;
                        match &a.direction { Direction::In(r) | Direction::Out(r) | Direction::InOut(r) => { if wf(src, r, "direction", out) { ev(); let t = text(src, r); if !(t == "in" || t == "out" || t == "inout") { out.push(format!("WITNESS direction range spans {:?}; source: {:?}", t, src)); } } } Direction::Unspecified => () }
                    }
                }
                InterfaceElement::Const(c) => { named(src, &c.name, &c.symbol_range, &c.full_range, "const", out); members.push((&c.full_range, c.name.clone())); check_type(src, &c.const_type, out); }
            } }
        }
        Item::Parcelable(p) => {
            named(src, &p.name, &p.symbol_range, &p.full_range, "parcelable", out); item_full = &p.full_range;
            for el in &p.elements { match el {
                ParcelableElement::Field(f) => { named(src, &f.name, &f.symbol_range, &f.full_range, "field", out); members.push((&f.full_range, f.name.clone())); check_type(src, &f.field_type, out);
                    ev(); if !inside(&f.field_type.full_range, &f.full_range) { out.push(format!("WITNESS type of field `{}` outside the field range; source: {:?}", f.name, src)); } }
                ParcelableElement::Const(c) => { named(src, &c.name, &c.symbol_range, &c.full_range, "const", out); members.push((&c.full_range, c.name.clone())); check_type(src, &c.const_type, out); }
            } }
        }
        Item::Enum(e) => {
            named(src, &e.name, &e.symbol_range, &e.full_range, "enum", out); item_full = &e.full_range;
            for el in &e.elements { named(src, &el.name, &el.symbol_range, &el.full_range, "enum element", out); members.push((&el.full_range, el.name.clone())); }
        }
    }
    let mut prev = item_full.start.offset;
    for (r, n) in members {
        ev();
        if !inside(r, item_full) { out.push(format!("WITNESS member `{}` outside its item; source: {:?}", n, src)); }
        if r.start.offset < prev { out.push(format!("WITNESS members overlap or are out of order at `{}`; source: {:?}", n, src)); }
        prev = r.end.offset;
    }
}

// leading layout (whitespace, block and line comments) removed
fn strip_layout(mut t: &str) -> &str {
    loop {
        let u = t.trim_start();
        if u.starts_with("/*") { if let Some(k) = u.find("*/") { t = &u[k + 2..]; continue; } }
        if u.starts_with("//") { if let Some(k) = u.find('\n') { t = &u[k + 1..]; continue; } }
        return u;
    }
}
// annotated members: the full range starts at the member's first token - `oneway` if present, else the type / `const` -
// optionally extended backwards over the layout that follows the annotations; it contains the oneway range
fn check_annotated(src: &str, out: &mut Vec<String>) {
    let mut p = Parser::new();
    p.add_content(0, src);
    let res = p.validate();
    let ast = match &res[&0].ast { Some(a) => a, None => { out.push(format!("WITNESS well-formed document has no tree; source: {:?}", src)); return; } };
    fn check(src: &str, out: &mut Vec<String>, what: &str, name: &str, full: &Range, first: &str, anns: usize) {
        ev();
        if !wf(src, full, what, out) { return; }
        let t = text(src, full);
        let body = if anns > 0 { strip_layout(t) } else { t };
        if !body.starts_with(first) { out.push(format!("WITNESS {} `{}`: full range starts with {:?}, expected its first token {:?}; source: {:?}", what, name, body.chars().take(20).collect::<String>(), first, src)); }
        if t.trim_end() != t || t.ends_with("*/") { out.push(format!("WITNESS {} `{}`: full range ends with layout; source: {:?}", what, name, src)); }
    }
    match &ast.item {
        Item::Interface(i) => for el in &i.elements { match el {
            InterfaceElement::Method(m) => {
                let first = if m.oneway && text(src, &m.oneway_range) == "oneway" { "oneway".to_string() } else { text(src, &m.return_type.full_range).to_string() };
                check(src, out, "method", &m.name, &m.full_range, &first, m.annotations.len());
                ev();
                if wf(src, &m.oneway_range, "oneway", out) && !inside(&m.oneway_range, &m.full_range) { out.push(format!("WITNESS method `{}`: oneway range outside the full range; source: {:?}", m.name, src)); }
                if wf(src, &m.transact_code_range, "transact code", out) && !inside(&m.transact_code_range, &m.full_range) { out.push(format!("WITNESS method `{}`: transact code range outside the full range; source: {:?}", m.name, src)); }
                if !inside(&m.symbol_range, &m.full_range) || !inside(&m.return_type.full_range, &m.full_range) { out.push(format!("WITNESS method `{}`: name or return type outside the full range; source: {:?}", m.name, src)); }
            }
            InterfaceElement::Const(c) => check(src, out, "const", &c.name, &c.full_range, "const", c.annotations.len()),
        } },
        Item::Parcelable(pa) => for el in &pa.elements { match el {
            ParcelableElement::Field(f) => { let first = text(src, &f.field_type.full_range).to_string(); check(src, out, "field", &f.name, &f.full_range, &first, f.annotations.len()); }
            ParcelableElement::Const(c) => check(src, out, "const", &c.name, &c.full_range, "const", c.annotations.len()),
        } },
        Item::Enum(_) => (),
    }
}

fn layouts(tokens: &[&str]) -> Vec<String> {
    // tokens joined by: single space; nothing where the lexer does not need a separator is NOT attempted (kept simple);
    // double space + tab; LF; CRLF; block comment with multi-byte text; line comment
    let seps = [" ", "  \t", "\n", "\r\n", " /* é中 */ ", " // c é\n"];
    seps.iter().map(|s| tokens.join(s)).collect()
}

#[test]
fn c04_all() {
    let types = ["int", "String", "Foo", "x.y.Foo", "int [ ]", "Foo [ ] [ ]", "List", "Map", "List < String >", "List < Foo > [ ]", "Map < String , Foo [ ] >", "Map < String , List < x.y.Foo > > [ ]"];
    let mut out = Vec::new();
    let mut docs = 0usize;
    for t in types.iter() { for u in types.iter().take(6) {
        let iface = format!("package p . q ; import x . y . Foo ; parcelable Fwd ; interface I {{ {t} f ( in {u} a , out {t} b , {u} ) = 12 ; const int K = 1 ; oneway void g ( ) ; }}", t = t, u = u);
        let parc = format!("package p ; import x . y . Foo ; parcelable P {{ {t} a ; const String S = \"s\" ; {u} b = 3 ; }}", t = t, u = u);
        for d in [iface, parc].iter() {
            let toks: Vec<&str> = d.split(' ').collect();
            for l in layouts(&toks) { docs += 1; check_doc(&l, &mut out); if out.len() > 30 { break; } }
        }
    } }
    for d in ["package p ; interface I { @Ann oneway void g ( ) = 3 ; @A @B ( x = 1 ) int h ( in int a ) ; oneway void k ( ) ; @C const int K = 1 ; @D oneway List < String > m ( ) ; }",
              "package p ; parcelable P { @Nullable String s ; @A @B int [ ] a = 1 ; @C const int K = 1 ; int plain ; }"].iter() {
        for l in layouts(&d.split(' ').collect::<Vec<_>>()) { docs += 1; check_annotated(&l, &mut out); }
    }
    // a character the lexer may skip, reject or (after a change) strip in front of / inside the document: offsets must keep
    // indexing the text the caller passed (BOM, zero-width space, no-break space, line separator, ...)
    for pre in ["\u{feff}", "\u{feff}\u{feff}", "\u{200b}", "\u{a0}", "\u{2028}", "\u{2003}\u{e9}"].iter() {
        for d in ["package p . q ; import x . y . Foo ; interface I { Map < String , Foo [ ] > f ( in x.y.Foo a , out int [ ] b ) = 12 ; const int K = 1 ; }",
                  "package p ; parcelable P { List < Foo > a ; const String S = \"s\" ; }", "package p ; enum E { A = 1 , B }"].iter() {
            for l in layouts(&d.split(' ').collect::<Vec<_>>()) {
                docs += 2;
                check_doc_opt(&format!("{}{}", pre, l), false, &mut out);
                check_doc_opt(&l.replacen(';', &format!(";{}", pre), 1), false, &mut out);
            }
        }
    }
    let e = "package p ; enum E { A = 1 , B , C = 3 , }";
    for l in layouts(&e.split(' ').collect::<Vec<_>>()) { docs += 1; check_doc(&l, &mut out); }
    // syntax diagnostics: an unlexable character gets an empty range exactly at that character; an unexpected token is
    // covered exactly; an unexpected end of input sits right after the last token - whatever the spacing around them
    for ch in ["#", "$", "\u{e9}", "\u{4e2d}", "\u{1f600}"].iter() { for pad in ["", " ", "\n\t", " /* c \u{e9} */ "].iter() {
        let head = format!("package p;{}interface I {{{}", pad, pad);
        let src = format!("{}{}{}void f(); }}", head, ch, pad);
        docs += 1;
        let mut p = Parser::new(); p.add_content(0, &src); let res = p.validate(); let fr = &res[&0];
        for d in &fr.diagnostics { wf(&src, &d.range, "diagnostic", &mut out); }
        ev();
        if !fr.diagnostics.iter().any(|d| d.range.start.offset == head.len() && d.range.end.offset == head.len()) {
            out.push(format!("WITNESS unlexable character {:?} at offset {}: no diagnostic with the empty range at that offset (got {:?}); source: {:?}", ch, head.len(), fr.diagnostics.iter().map(|d| (d.range.start.offset, d.range.end.offset)).collect::<Vec<_>>(), src));
        }
    } }
    for pad in ["", " ", "\n\t", " /* c \u{e9} */ "].iter() {
        let head = format!("package p;{}interface I {{{}void f(){}", pad, pad, pad);
        let src = format!("{}{{{}g(); }}", head, pad);          // `;` missing: the `{` is the unexpected token
        docs += 1;
        let mut p = Parser::new(); p.add_content(0, &src); let res = p.validate(); let fr = &res[&0];
        for d in &fr.diagnostics { wf(&src, &d.range, "diagnostic", &mut out); }
        ev();
        if !fr.diagnostics.iter().any(|d| d.range.start.offset == head.len() && d.range.end.offset == head.len() + 1) {
            out.push(format!("WITNESS unexpected token `{{` at {}..{}: no diagnostic covering exactly it (got {:?}); source: {:?}", head.len(), head.len() + 1, fr.diagnostics.iter().map(|d| (d.range.start.offset, d.range.end.offset)).collect::<Vec<_>>(), src));
        }
        let body = format!("package p;{}interface I {{{}void f()", pad, pad);
        let src2 = format!("{}{}", body, pad);                   // input ends after `)`
        docs += 1;
        let mut p = Parser::new(); p.add_content(0, &src2); let res = p.validate(); let fr = &res[&0];
        for d in &fr.diagnostics { wf(&src2, &d.range, "diagnostic", &mut out); }
        ev();
        if !fr.diagnostics.iter().any(|d| d.range.start.offset == d.range.end.offset && d.range.start.offset >= body.len()) {
            out.push(format!("WITNESS unexpected end of input: no empty-range diagnostic after the last token (offset {}), got {:?}; source: {:?}", body.len(), fr.diagnostics.iter().map(|d| (d.range.start.offset, d.range.end.offset)).collect::<Vec<_>>(), src2));
        }
    }
    out.sort(); out.dedup();
    for w in out.iter().take(12) { println!("{}", w.chars().take(700).collect::<String>()); }
    println!("ORACLE-STATS evaluations={} distinct={} rule=each range comparison (well-formedness, line/col, name text, nesting, sibling order) on 12 x 6 type shapes x 2 frames x 6 layouts + enum + 6 odd prefixes / infixes (BOM, zero-width, no-break space, line separator) x 3 documents x 6 layouts + annotated members (first token, oneway / code ranges inside) + 28 malformed documents (unlexable character / unexpected token / end of input, 4 paddings)", unsafe { EVALS }, docs);
    assert!(out.is_empty(), "witness found");
}
