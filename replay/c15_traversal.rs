// Witness finder / replayer for C15 (and the walker contracts behind C05, C06, C08, C09, C16):
// compares the real walkers with an independent reference traversal written from the C15 statement.
use aidl_parser::ast::*;
use aidl_parser::symbol::Symbol;
use aidl_parser::traverse::{self, SymbolFilter};
use aidl_parser::Parser;

fn flat<'a>(t: &'a Type, out: &mut Vec<&'a Type>) {
    if t.kind == TypeKind::Array {
        for c in &t.generic_types { flat(c, out); }
        out.push(t);
    } else {
        out.push(t);
        for c in &t.generic_types { flat(c, out); }
    }
}

// identity of a symbol: discriminant + address of the node
fn sid(s: &Symbol) -> (u8, usize) {
    match s {
        Symbol::Package(p) => (0, *p as *const _ as usize),
        Symbol::Import(i) => (1, *i as *const _ as usize),
        Symbol::Interface(i, _) => (2, *i as *const _ as usize),
        Symbol::Parcelable(p, _) => (3, *p as *const _ as usize),
        Symbol::Enum(e, _) => (4, *e as *const _ as usize),
        Symbol::Method(m, _) => (5, *m as *const _ as usize),
        Symbol::Arg(a, _) => (6, *a as *const _ as usize),
        Symbol::Const(c, _) => (7, *c as *const _ as usize),
        Symbol::Field(f, _) => (8, *f as *const _ as usize),
        Symbol::EnumElement(e, _) => (9, *e as *const _ as usize),
        Symbol::Type(t) => (10, *t as *const _ as usize),
    }
}

fn types_ids(t: &Type, out: &mut Vec<(u8, usize)>) {
    let mut v = Vec::new();
    flat(t, &mut v);
    for x in v { out.push((10, x as *const _ as usize)); }
}

fn reference(ast: &Aidl, level: u8) -> Vec<(u8, usize)> {
    let mut out = Vec::new();
    let all = level == 2;
    if all {
        out.push((0, &ast.package as *const _ as usize));
        for i in &ast.imports { out.push((1, i as *const _ as usize)); }
    }
    match &ast.item {
        Item::Interface(i) => {
            out.push((2, i as *const _ as usize));
            if level == 0 { return out; }
            for el in &i.elements {
                match el {
                    InterfaceElement::Method(m) => {
                        out.push((5, m as *const _ as usize));
                        if all {
                            types_ids(&m.return_type, &mut out);
                            for a in &m.args { out.push((6, a as *const _ as usize)); types_ids(&a.arg_type, &mut out); }
                        }
                    }
                    InterfaceElement::Const(c) => { out.push((7, c as *const _ as usize)); if all { types_ids(&c.const_type, &mut out); } }
                }
            }
        }
        Item::Parcelable(p) => {
            out.push((3, p as *const _ as usize));
            if level == 0 { return out; }
            for el in &p.elements {
                match el {
                    ParcelableElement::Field(f) => { out.push((8, f as *const _ as usize)); if all { types_ids(&f.field_type, &mut out); } }
                    ParcelableElement::Const(c) => { out.push((7, c as *const _ as usize)); if all { types_ids(&c.const_type, &mut out); } }
                }
            }
        }
        Item::Enum(e) => {
            out.push((4, e as *const _ as usize));
            if level == 0 { return out; }
            for el in &e.elements { out.push((9, el as *const _ as usize)); }
        }
    }
    out
}

fn filter_of(level: u8) -> SymbolFilter {
    match level { 0 => SymbolFilter::ItemsOnly, 1 => SymbolFilter::ItemsAndItemElements, _ => SymbolFilter::All }
}

static EVALS: std::sync::atomic::AtomicUsize = std::sync::atomic::AtomicUsize::new(0);
fn ev(n: usize) { EVALS.fetch_add(n, std::sync::atomic::Ordering::Relaxed); }

fn check_doc(name: &str, src: &str) -> bool {
    let mut parser = Parser::new();
    parser.add_content(0, src);
    let res = parser.validate();
    let ast = match res[&0].ast.as_ref() { Some(a) => a, None => { println!("WITNESS case={} does not parse: {:?}", name, res[&0].diagnostics.iter().map(|d| d.message.clone()).collect::<Vec<_>>()); return false; } };
    let mut ok = true;
    for level in 0u8..3 {
        let want = reference(ast, level);
        ev(1 + 11 + want.len() + 2);
        let mut got = Vec::new();
        traverse::walk_symbols(ast, filter_of(level), |s| got.push(sid(&s)));
        if got != want {
            println!("WITNESS case={} walk_symbols level={} visits {} symbols {:?}, expected {} {:?}; source: {}", name, level, got.len(), got.iter().map(|x| x.0).collect::<Vec<_>>(), want.len(), want.iter().map(|x| x.0).collect::<Vec<_>>(), src);
            ok = false;
        }
        // filter: k-th visited / of kind K
        for kind in 0u8..11 {
            let f = traverse::filter_symbols(ast, filter_of(level), |s| sid(s).0 == kind);
            let fw: Vec<_> = want.iter().cloned().filter(|x| x.0 == kind).collect();
            if f.iter().map(sid).collect::<Vec<_>>() != fw {
                println!("WITNESS case={} filter_symbols level={} kind={} differs; source: {}", name, level, kind, src);
                ok = false;
            }
        }
        // find: the k-th symbol of the reference must be found by the predicate that selects exactly it
        for (k, w) in want.iter().enumerate() {
            let r = traverse::find_symbol(ast, filter_of(level), |s| sid(s) == *w);
            if r.as_ref().map(sid) != Some(*w) {
                println!("WITNESS case={} find_symbol level={} k={} (symbol kind {}) returns {:?}; source: {}", name, level, k, w.0, r.as_ref().map(|s| sid(s).0), src);
                ok = false;
            }
        }
        let r = traverse::find_symbol(ast, filter_of(level), |_| false);
        if r.is_some() { println!("WITNESS case={} find_symbol(false) returns something", name); ok = false; }
        // early exit: searching for the first symbol must not visit more than one
        let mut n = 0;
        let _ = traverse::find_symbol(ast, filter_of(level), |_| { n += 1; true });
        if !want.is_empty() && n != 1 { println!("WITNESS case={} find_symbol level={} visits {} symbols after a match; source: {}", name, level, n, src); ok = false; }
    }
    // C16: every position of the document, every filter level: first symbol of the reference order whose name range contains it
    for level in 0u8..3 {
        let mut syms = Vec::new();
        traverse::walk_symbols(ast, filter_of(level), |s| syms.push(s));
        let want_ids = reference(ast, level);
        if syms.iter().map(sid).collect::<Vec<_>>() != want_ids { continue; } // already reported above
        for (ln, line) in src.split('\n').enumerate() {
            for col in 1..=(line.chars().count() + 1) {
                let pos = (ln + 1, col);
                ev(1);
                let contains = |r: &Range| (r.start.line_col <= pos) && (pos <= r.end.line_col);
                let want = syms.iter().find(|s| contains(s.get_range())).map(sid);
                let got = traverse::find_symbol_at_line_col(ast, filter_of(level), pos).as_ref().map(sid);
                if got != want {
                    println!("WITNESS property=C16 case={} find_symbol_at_line_col level={} at {:?} returns {:?}, expected {:?}; source: {:?}", name, level, pos, got.map(|x| x.0), want.map(|x| x.0), src);
                    ok = false;
                    break;
                }
            }
        }
    }
    // walk_types / walk_methods / walk_args
    let all = reference(ast, 2);
    let want_t: Vec<usize> = all.iter().filter(|x| x.0 == 10).map(|x| x.1).collect();
    let mut got_t = Vec::new();
    traverse::walk_types(ast, |t| got_t.push(t as *const _ as usize));
    if got_t != want_t { println!("WITNESS case={} walk_types yields {} types, expected {}; source: {}", name, got_t.len(), want_t.len(), src); ok = false; }
    let want_m: Vec<usize> = all.iter().filter(|x| x.0 == 5).map(|x| x.1).collect();
    let mut got_m = Vec::new();
    traverse::walk_methods(ast, |m| got_m.push(m as *const _ as usize));
    if got_m != want_m { println!("WITNESS case={} walk_methods differs; source: {}", name, src); ok = false; }
    let want_a: Vec<usize> = all.iter().filter(|x| x.0 == 6).map(|x| x.1).collect();
    let mut got_a = Vec::new();
    traverse::walk_args(ast, |_, a| got_a.push(a as *const _ as usize));
    if got_a != want_a { println!("WITNESS case={} walk_args differs; source: {}", name, src); ok = false; }
    // walk_types_mut (crate-private) through its effect: no type node may stay unresolved silently
    let mut roots: Vec<&Type> = Vec::new();
    match &ast.item {
        Item::Interface(i) => for el in &i.elements { match el {
            InterfaceElement::Method(m) => { roots.push(&m.return_type); for a in &m.args { roots.push(&a.arg_type); } }
            InterfaceElement::Const(c) => roots.push(&c.const_type) } },
        Item::Parcelable(p) => for el in &p.elements { match el {
            ParcelableElement::Field(f) => roots.push(&f.field_type),
            ParcelableElement::Const(c) => roots.push(&c.const_type) } },
        Item::Enum(_) => (),
    }
    let mut nodes = Vec::new();
    for r in roots { flat(r, &mut nodes); }
    let mut silent = Vec::new();
    for t in nodes {
        if t.kind == TypeKind::Unresolved && !res[&0].diagnostics.iter().any(|d| d.range == t.symbol_range && d.message.starts_with("Unknown type")) { silent.push(t.name.clone()); }
    }
    if !silent.is_empty() { println!("WITNESS case={} type node(s) {:?} left unresolved without diagnostic (never offered to the resolver); source: {}", name, silent, src); ok = false; }
    ok
}

#[test]
fn c15_all() {
    let cases = [
        ("iface_deep", "package p.q; import a.B; import c.D; interface I { Map<String, List<Foo>> f(in List<List<int[]>> a, out Bar[] b, int c); const int K = 1; void g(); oneway void h(in Map<String, Map<String, Baz[]>> m) = 3; }"),
        ("iface_flat", "package p; interface I { void f(); }"),
        ("iface_empty", "package p; interface I { }"),
        ("parcelable", "package p; import x.Y; parcelable P { int a; List<Map<String, Y[]>> b; const String S = \"s\"; Y[] c; Map m; List l; }"),
        ("enum", "package p; enum E { A = 1, B, C }"),
        ("array_of_generic", "package p; interface I { List<String>[] f(in Map<String,String>[] x); }"),
    ];
    let mut ok = true;
    for (n, s) in cases.iter() { ok &= check_doc(n, s); }
    // the same documents with every space turned into a line break (types above names), LF and CRLF, multi-byte text before names
    for (n, s) in cases.iter() {
        ok &= check_doc(n, &s.replace(' ', "\n"));
        ok &= check_doc(n, &s.replace("; ", ";\r\n /* é中 */ "));
    }
    // names laid out over several lines (a dotted name is a token sequence: it may break at every dot), continuation lines
    // less and more indented than the first line, LF and CRLF
    let dotted = [
        ("dotted_iface", "package com.example.demo; import a.b.C; import d.E; interface I { a.b.C f(in x.y.Z z, out List<a.b.C> l); const int K = 1; d.E[] g(); }"),
        ("dotted_parcelable", "package com.example; import a.b.C; parcelable P { a.b.C c; Map<String, x.y.Z> m; }"),
    ];
    for (n, s) in dotted.iter() {
        ok &= check_doc(n, s);
        for brk in [".\n", "\n.", ".\n            ", "\n  .\n ", ".\r\n", ".\r\n      "].iter() {
            ok &= check_doc(n, &s.replace('.', brk));
            ok &= check_doc(n, &format!("      {}", s).replace('.', brk).replace("; ", ";\n        "));
        }
    }
    // generated family: every member form x type shapes nested to depth 3 (arrays of generics, generics of arrays)
    let shapes = ["int", "Foo", "int[]", "Foo[][]", "List<Foo>", "List<String>[]", "Map<String, Foo>", "Map<String, List<Foo[]>>", "List<Map<String, int[]>>[]", "Map<String, Map<String, List<Foo>>>"];
    let mut n_gen = 0;
    for a in shapes.iter() { for b in shapes.iter() {
        let i = format!("package p; import x.Foo; interface I {{ {a} f(in {b} x, out {a} y); const int K = 1; oneway void g(in {b} z) = 2; }}", a = a, b = b);
        let p = format!("package p; import x.Foo; parcelable P {{ {a} u; const String S = \"s\"; {b} v; }}", a = a, b = b);
        ok &= check_doc("gen_iface", &i); ok &= check_doc("gen_parcelable", &p); n_gen += 2;
    } }
    println!("ORACLE-STATS evaluations={} distinct={} rule=each (document, filter level, predicate) comparison with the reference traversal; documents: 6 hand-written + 2 with dotted names in 13 multi-line layouts + {} generated (10 x 10 type shapes, depth <= 3, interface and parcelable frames)", EVALS.load(std::sync::atomic::Ordering::Relaxed), 6 + n_gen, n_gen);
    assert!(ok, "witness found");
}
