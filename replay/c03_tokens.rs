// Bounded oracle for C02 / C03 (token level): the REAL parser is compared with a reference lexer for the supported AIDL token
// language. The reference is the token table of the supported grammar (pinned below, evaluated with the same `regex` crate and
// lalrpop's rule: longest match, then the earlier precedence tier, a literal before a regex). For every generated string w:
//   * the reference lexes w as ONE token of class X  ->  in a document that expects an X at that place, the real parser must accept
//     it and store it verbatim (strings, numbers, booleans, names, directions, primitives, annotations);
//   * the reference lexes w entirely as layout (white space / comments)  ->  the document with w between two tokens parses cleanly;
//   * the reference finds no token at the start of w  ->  the document with w in a member position carries a syntax Error.
// A rewrite of a regex that keeps its meaning changes nothing here; a change of what a token IS shows up as a failing input.
// BOUNDED: strings over per-class alphabets up to a length, keyword near-misses - a stand-in, never counted as proved.
use aidl_parser::ast::*;
use aidl_parser::diagnostic::DiagnosticKind;
use aidl_parser::Parser;
use regex::Regex;

#[derive(Clone, Copy, PartialEq, Eq, Debug)]
enum C { Skip, Lit, Direction, Primitive, Quoted, Boolean, Annotation, Reserved, Ident, Integer, Float }

struct Pat { re: Regex, class: C, tier: u8, literal: bool }

fn table() -> Vec<Pat> {
    let mut v = Vec::new();
    let mut add = |p: &str, class: C, tier: u8, literal: bool| v.push(Pat { re: Regex::new(&format!("^(?:{})", p)).unwrap(), class, tier, literal });
    // layout
    add(r"\s+", C::Skip, 0, false);
    add(r"//[^\n\r]*[\n\r]*", C::Skip, 0, false);
    add(r"/\*[^*]*\*+(?:[^/*][^*]*\*+)*/", C::Skip, 0, false);
    // first precedence tier
    for k in ["package", "import", "interface", "parcelable", "enum", "oneway", "const", "void", "String", "CharSequence", "List", "Map",
              ";", ",", r"\{", r"\}", r"\(", r"\)", r"\[", r"\]", "<", ">", "=", r"\.", "-"] { add(k, C::Lit, 1, true); }
    add(r"(inout|in|out)", C::Direction, 1, false);
    add(r"(byte|short|int|long|float|double|boolean|char)", C::Primitive, 1, false);
    add(r#""[^"\n\r]*""#, C::Quoted, 1, false);
    add(r"(true|false)", C::Boolean, 1, false);
    add(r"@[a-zA-Z_][a-zA-Z0-9_]*", C::Annotation, 1, false);
    // second tier: reserved words of the target languages
    add(r"(break|case|catch|char|class|continue|default|do|double|else|enum|false|float|for|goto|if|int|long|new|private|protected|public|return|short|static|switch|this|throw|true|try|void|volatile|while)", C::Reserved, 2, false);
    // third tier
    add(r"[a-zA-Z_][a-zA-Z0-9_]*", C::Ident, 3, false);
    add(r"[0-9]+", C::Integer, 3, false);
    // fourth tier
    add(r"[+-]?(\d*\.)?\d+[f]?", C::Float, 4, false);
    v
}

// one step of the reference lexer at the start of w
fn lex1(t: &[Pat], w: &str) -> Option<(C, usize)> {
    let mut best: Option<(C, usize, u8, bool)> = None;
    for p in t.iter() {
        if let Some(m) = p.re.find(w) {
            let len = m.end();
            if len == 0 { continue; }
            let better = match best { None => true, Some((_, bl, bt, blit)) => len > bl || (len == bl && (p.tier < bt || (p.tier == bt && p.literal && !blit))) };
            if better { best = Some((p.class, len, p.tier, p.literal)); }
        }
    }
    best.map(|b| (b.0, b.1))
}
fn single(t: &[Pat], w: &str) -> Option<C> { match lex1(t, w) { Some((c, n)) if n == w.len() => Some(c), _ => None } }
fn all_skip(t: &[Pat], w: &str) -> bool { let mut r = w; while !r.is_empty() { match lex1(t, r) { Some((C::Skip, n)) => r = &r[n..], _ => return false } } true }

struct Out { ast: Option<Aidl>, errors: Vec<String> }
fn parse(src: &str) -> Out {
    let mut p = Parser::new();
    p.add_content(0, src);
    let res = p.validate();
    let fr = &res[&0];
    Out { ast: fr.ast.clone(), errors: fr.diagnostics.iter().filter(|d| d.kind == DiagnosticKind::Error).map(|d| d.message.clone()).collect() }
}
fn syntax_errors(o: &Out) -> Vec<&String> { o.errors.iter().filter(|m| m.contains("Unrecognized") || m.contains("Invalid token") || m.contains("Extra token") || m.contains("Invalid item") || m.contains("Invalid ")).collect() }

fn words(n: usize, alphabet: &[char], f: &mut dyn FnMut(&str)) {
    let mut idx = vec![0usize; 0];
    f("");
    for len in 1..=n {
        idx.clear(); idx.resize(len, 0);
        loop {
            let s: String = idx.iter().map(|&i| alphabet[i]).collect();
            f(&s);
            let mut k = len;
            loop { if k == 0 { break; } k -= 1; idx[k] += 1; if idx[k] < alphabet.len() { break; } idx[k] = 0; if k == 0 { k = usize::MAX; break; } }
            if k == usize::MAX { break; }
        }
    }
}

#[test]
fn c03_tokens() {
    let t = table();
    let full = std::env::var("ORACLE_FULL").map(|v| v == "1").unwrap_or(false);
    let mut cands: Vec<String> = Vec::new();
    // comments and layout
    words(7, &['/', '*', 'a', '\n'], &mut |s| if s.starts_with('/') { cands.push(s.to_string()) });
    words(4, &['/', '*', ' ', '\r', '"', '\u{e9}'], &mut |s| if s.starts_with('/') { cands.push(s.to_string()) });
    words(3, &[' ', '\t', '\n', '\r', '\u{b}', '\u{c}', '\u{85}', '\u{a0}', '\u{2003}', '\u{2028}', '\u{feff}', '\u{200b}'], &mut |s| cands.push(s.to_string()));
    // string literals
    words(if full { 5 } else { 4 }, &['"', '\\', 'a', ' ', '/', '*', '\n', '\u{e9}'], &mut |s| if s.starts_with('"') { cands.push(s.to_string()) });
    // numbers
    words(4, &['0', '9', '.', '-', '+', 'f', 'e', 'x', '\u{661}'], &mut |s| cands.push(s.to_string()));
    // names, keywords and their near misses
    let kws = ["package", "import", "interface", "parcelable", "enum", "oneway", "const", "void", "String", "CharSequence", "List", "Map", "in", "out", "inout", "byte", "short", "int", "long", "float",
        "double", "boolean", "char", "true", "false", "break", "case", "catch", "class", "continue", "default", "do", "else", "for", "goto", "if", "new", "private", "protected", "public", "return", "static",
        "switch", "this", "throw", "try", "volatile", "while", "a", "Z", "_", "Foo", "x1", "IBinder"];
    for k in kws.iter() {
        cands.push(k.to_string());
        for c in ["a", "Z", "_", "0", "2", "\u{e9}", "\u{3b2}", "\u{301}", "$", "-", "."].iter() { cands.push(format!("{}{}", k, c)); cands.push(format!("{}{}", c, k)); }
        for k2 in ["in", "out", "inout", "int", "do", "for"].iter() { cands.push(format!("{}{}", k, k2)); }
        cands.push(format!("@{}", k)); cands.push(format!("@{}1", k)); cands.push(k.to_uppercase()); cands.push(k[..k.len() - 1].to_string());
    }
    for a in ["@", "@1", "@a", "@_", "@A9_", "@\u{e9}", "@a\u{e9}", "@ a", "@@a", "@a.b", "@-"].iter() { cands.push(a.to_string()); }
    cands.sort(); cands.dedup();

    let mut out: Vec<String> = Vec::new();
    let (mut evals, mut by_class) = (0usize, std::collections::BTreeMap::<String, usize>::new());
    let mut wit = |out: &mut Vec<String>, msg: String| { if out.len() < 60 { out.push(msg); } };
    for w in cands.iter() {
        if w.is_empty() { continue; }
        let class: Option<C> = if all_skip(&t, w) { Some(C::Skip) } else { single(&t, w) };
        let none_at_start = lex1(&t, w).is_none();
        // the reference lexer gets stuck somewhere in w (at the start or after some tokens)
        let fails = { let mut r = w.as_str(); let mut f = false; while !r.is_empty() { match lex1(&t, r) { Some((_, n)) => r = &r[n..], None => { f = true; break; } } } f };
        let key = match class { Some(c) => format!("{:?}", c), None => if none_at_start { "no-token".to_string() } else if fails { "stuck-later".to_string() } else { "sequence".to_string() } };
        let h = w.bytes().fold(0u32, |a, b| a.wrapping_mul(31).wrapping_add(b as u32));
        if !full && matches!(class, Some(C::Skip) | Some(C::Ident) | Some(C::Float)) && w.chars().count() > 3 && h % 2 != 0 { continue; } // quick tier: half of the long ones
        match class {
            Some(C::Skip) => {
                let src = format!("package p;\n{}\ninterface I {{\n{}\nvoid f(\n{}\nint a\n{}\n);\n{}\n}}", w, w, w, w, w);
                let o = parse(&src); evals += 1;
                let ok = o.errors.is_empty() && matches!(o.ast.as_ref().map(|a| &a.item), Some(Item::Interface(i)) if i.elements.len() == 1 && matches!(&i.elements[0], InterfaceElement::Method(m) if m.name == "f" && m.args.len() == 1 && m.args[0].name.as_deref() == Some("a")));
                if !ok { wit(&mut out, format!("WITNESS layout {:?} (white space / comment in the supported grammar) is not skipped: errors {:?}; source: {:?}", w, o.errors, src)); }
                // the same with the next token directly behind w, when the reference says that w ends exactly there (a line comment
                // without its line end would swallow the token; `//a` + CR ends at the CR, whatever follows)
                let follows = format!("{}void", w);
                let stable = { let mut r = follows.as_str(); let mut eaten = 0usize; let mut good = true; while eaten < w.len() { match lex1(&t, r) { Some((C::Skip, n)) if eaten + n <= w.len() => { eaten += n; r = &r[n..]; } _ => { good = false; break; } } } good };
                if stable {
                    let src = format!("package p;{}interface I {{{}void f({}int a{});{}}}", w, w, w, w, w);
                    let o = parse(&src); evals += 1;
                    let ok = o.errors.is_empty() && matches!(o.ast.as_ref().map(|a| &a.item), Some(Item::Interface(i)) if i.elements.len() == 1 && matches!(&i.elements[0], InterfaceElement::Method(m) if m.name == "f" && m.args.len() == 1 && m.args[0].name.as_deref() == Some("a")));
                    if !ok { wit(&mut out, format!("WITNESS layout {:?} directly in front of a token is not skipped up to that token: errors {:?}; source: {:?}", w, o.errors, src)); }
                }
            }
            Some(C::Quoted) | Some(C::Boolean) | Some(C::Float) | Some(C::Integer) => {
                let src = format!("package p; parcelable P {{ const String S = {} ; int x = {} ; }}", w, w);
                let o = parse(&src); evals += 1;
                let ok = syntax_errors(&o).is_empty() && matches!(o.ast.as_ref().map(|a| &a.item), Some(Item::Parcelable(p)) if p.elements.len() == 2
                    && matches!(&p.elements[0], ParcelableElement::Const(c) if c.value == *w) && matches!(&p.elements[1], ParcelableElement::Field(f) if f.value.as_deref() == Some(w.as_str())));
                if !ok { wit(&mut out, format!("WITNESS value {:?} ({}) is not stored verbatim: errors {:?}; source: {:?}", w, key, o.errors, src)); }
                if class != Some(C::Integer) {
                    // only an INTEGER may stand behind `=` of a method: anything else is a SYNTAX error there (not a value error)
                    let src = format!("package p; interface I {{ void f() = {} ; void g(); }}", w);
                    let o = parse(&src); evals += 1;
                    if !o.errors.iter().any(|m| m.contains("Unrecognized token") || m.contains("Invalid token")) { wit(&mut out, format!("WITNESS {:?} ({}) behind `=` of a method is not a syntax error: errors {:?}; source: {:?}", w, key, o.errors, src)); }
                }
                if class == Some(C::Integer) {
                    let src = format!("package p; interface I {{ void f() = {} ; void g(); }}", w);
                    let o = parse(&src); evals += 1;
                    let ok = syntax_errors(&o).iter().all(|m| m.contains("transact code")) && matches!(o.ast.as_ref().map(|a| &a.item), Some(Item::Interface(i)) if i.elements.len() == 2);
                    if !ok { wit(&mut out, format!("WITNESS integer {:?} is not accepted as a transact code: errors {:?}; source: {:?}", w, o.errors, src)); }
                }
            }
            Some(C::Ident) => {
                let src = format!("package p; import q.{}; interface {} {{ void {} ( in {} {} ) ; }}", w, w, w, w, w);
                let o = parse(&src); evals += 1;
                let ok = syntax_errors(&o).is_empty() && matches!(o.ast.as_ref(), Some(a) if a.imports.len() == 1 && a.imports[0].name == *w && matches!(&a.item, Item::Interface(i) if i.name == *w && i.elements.len() == 1
                    && matches!(&i.elements[0], InterfaceElement::Method(m) if m.name == *w && m.args.len() == 1 && m.args[0].arg_type.name == *w && m.args[0].name.as_deref() == Some(w.as_str()) && matches!(m.args[0].direction, Direction::In(_)))));
                if !ok { wit(&mut out, format!("WITNESS identifier {:?} is not accepted verbatim as a name: errors {:?}; source: {:?}", w, o.errors, src)); }
            }
            Some(C::Direction) => {
                let src = format!("package p; interface I {{ void f ( {} int [ ] a ) ; }}", w);
                let o = parse(&src); evals += 1;
                let ok = syntax_errors(&o).is_empty() && matches!(o.ast.as_ref().map(|a| &a.item), Some(Item::Interface(i)) if i.elements.len() == 1 && matches!(&i.elements[0], InterfaceElement::Method(m) if m.args.len() == 1 && m.args[0].name.as_deref() == Some("a")
                    && match (&m.args[0].direction, w.as_str()) { (Direction::In(_), "in") | (Direction::Out(_), "out") | (Direction::InOut(_), "inout") => true, _ => false }));
                if !ok { wit(&mut out, format!("WITNESS direction {:?} is not read as that direction: errors {:?}; source: {:?}", w, o.errors, src)); }
            }
            Some(C::Primitive) => {
                let src = format!("package p; interface I {{ {} f ( in {} [ ] a ) ; }}", w, w);
                let o = parse(&src); evals += 1;
                let ok = syntax_errors(&o).is_empty() && matches!(o.ast.as_ref().map(|a| &a.item), Some(Item::Interface(i)) if i.elements.len() == 1 && matches!(&i.elements[0], InterfaceElement::Method(m) if m.return_type.name == *w && m.args.len() == 1));
                if !ok { wit(&mut out, format!("WITNESS primitive {:?} is not read as a type: errors {:?}; source: {:?}", w, o.errors, src)); }
            }
            Some(C::Annotation) => {
                let src = format!("package p; {} interface I {{ {} void f ( ) ; }}", w, w);
                let o = parse(&src); evals += 1;
                let ok = syntax_errors(&o).is_empty() && matches!(o.ast.as_ref().map(|a| &a.item), Some(Item::Interface(i)) if i.annotations.len() == 1 && (i.annotations[0].name == *w || i.annotations[0].name == w[1..]) && i.elements.len() == 1);
                if !ok { wit(&mut out, format!("WITNESS annotation {:?} is not read as an annotation: errors {:?}; source: {:?}", w, o.errors, src)); }
            }
            Some(C::Reserved) => {
                // a reserved word is a token of its own that no rule accepts: never a name
                let src = format!("package p; interface {} {{ }}", w);
                let o = parse(&src); evals += 1;
                if syntax_errors(&o).is_empty() { wit(&mut out, format!("WITNESS reserved word {:?} is accepted as a name; source: {:?}", w, src)); }
            }
            Some(C::Lit) => { continue; }
            None if !fails => {
                // w is a run of several tokens without layout. When it starts with a number / string / boolean token and goes on,
                // no value of the supported grammar has that form: a syntax error in value position
                let (c1, n1) = lex1(&t, w).unwrap();
                if c1 == C::Annotation && n1 < w.len() && (w[n1..].starts_with('.') || w[n1..].starts_with('-')) {
                    // an annotation name ends where its token ends: `@a.b` is `@a` `.` `b`, which no rule accepts in front of an item
                    let src = format!("package p; {} interface I {{ }}", w);
                    let o = parse(&src); evals += 1;
                    if !o.errors.iter().any(|m| m.contains("Unrecognized token") || m.contains("Invalid token")) { wit(&mut out, format!("WITNESS {:?} = annotation token followed by a sign is accepted in front of an item: errors {:?}; source: {:?}", w, o.errors, src)); }
                    continue;
                }
                if !matches!(c1, C::Integer | C::Float | C::Quoted | C::Boolean) || n1 == w.len() { continue; }
                // ... directly followed by a name / number / string / keyword token (not layout, not a sign)
                if !matches!(lex1(&t, &w[n1..]), Some((C::Ident, _)) | Some((C::Integer, _)) | Some((C::Float, _)) | Some((C::Quoted, _)) | Some((C::Boolean, _)) | Some((C::Reserved, _)) | Some((C::Primitive, _)) | Some((C::Direction, _))) { continue; }
                if !full && h % 3 != 0 { continue; }
                let src = format!("package p; parcelable P {{ const String S = {} ; }}", w);
                let o = parse(&src); evals += 1;
                if !o.errors.iter().any(|m| m.contains("Unrecognized token") || m.contains("Invalid token")) { wit(&mut out, format!("WITNESS {:?} = {:?} token followed by more is accepted as one value: errors {:?}; source: {:?}", w, c1, o.errors, src)); }
            }
            None => {
                if !fails { continue; }
                if !full && h % (if none_at_start { 8 } else { 12 }) != 0 { continue; } // quick tier: a sample of the strings the reference cannot lex
                // somewhere in w nothing of the supported token language starts: a syntax Error, whatever w stands for
                for src in [format!("package p; interface I {{ void f(); {} }}", w), format!("package p; interface {} {{ }}", w), format!("package p; parcelable P {{ const String S = {} ; }}", w)].iter() {
                    let o = parse(src); evals += 1;
                    if syntax_errors(&o).is_empty() { wit(&mut out, format!("WITNESS {:?} contains a place where no token of the supported grammar starts, but the document is accepted without a syntax Error; source: {:?}", w, src)); }
                }
            }
        }
        *by_class.entry(key).or_insert(0) += 1;
    }
    for m in out.iter().take(12) { println!("{}", m.chars().take(700).collect::<String>()); }
    println!("ORACLE-STATS evaluations={} distinct={} rule=reference token table of the supported grammar (longest match, tier, literal first) vs the real parser, per candidate string by reference class {:?}: single tokens are accepted verbatim where their class is expected, layout is skipped, a string that starts with no token gives a syntax Error", evals, cands.len(), by_class);
    assert!(out.is_empty(), "witness found");
}
