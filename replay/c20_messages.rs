// Bounded oracle for C20: at error points whose expectation set is known from the grammar (sizes 1 and 2, where the
// recorded known finding does not apply), the message must name exactly that set.
use aidl_parser::Parser;

fn messages(src: &str) -> Vec<String> {
    let mut p = Parser::new();
    p.add_content(0, src);
    p.validate()[&0].diagnostics.iter().map(|d| d.message.clone()).filter(|m| m.contains("Expected")).collect()
}

fn named_tokens(msg: &str) -> Vec<String> {
    // wording: "Expected a" | "Expected a or b" | "Expected one of a, b, .. or z"
    let tail = msg.split("Expected ").nth(1).unwrap_or("");
    let tail = tail.strip_prefix("one of ").unwrap_or(tail);
    // token names are either quoted literals ("x") or upper-case identifiers
    let mut out = Vec::new();
    let b: Vec<char> = tail.chars().collect();
    let mut i = 0;
    while i < b.len() {
        if b[i] == '"' { let mut j = i + 1; while j < b.len() && b[j] != '"' { j += 1; } out.push(b[i..=j.min(b.len() - 1)].iter().collect()); i = j + 1; }
        else if b[i].is_ascii_uppercase() { let mut j = i; while j < b.len() && (b[j].is_ascii_uppercase() || b[j] == '_') { j += 1; } out.push(b[i..j].iter().collect()); i = j; }
        else { i += 1; }
    }
    out
}

#[test]
fn c20_all() {
    // (source, expectation set at the error point) -- LALR(1) lookahead sets of src/aidl.lalrpop, confirmed on the pinned tree
    // (sizes 1 and 2 are rendered correctly there)
    let cases: [(&str, &[&str]); 7] = [
        ("package a.b; interface I ;", &["\"{\""]),
        ("package a.b; interface I { void f(int a ; void g(); }", &["\")\"", "\",\""]),
        ("package a.b; interface I { void f(in String s", &["\")\"", "\",\""]),
        ("package a.b; parcelable P { int x ( ; }", &["\";\"", "\"=\""]),
        ("package a.b; import c ;", &["\".\""]),
        ("package a.b; interface I { const int K 3; }", &["\"=\""]),
        ("package a.b; @Ann(a=1 ; interface I {}", &["\")\"", "\",\""]),
    ];
    let mut ok = true;
    for (src, want) in cases.iter() {
        let msgs = messages(src);
        if msgs.is_empty() { println!("WITNESS no 'Expected' message at all; source: {:?}", src); ok = false; continue; }
        let got = named_tokens(&msgs[0]);
        let mut w: Vec<String> = want.iter().map(|s| s.to_string()).collect(); w.sort();
        let mut g = got.clone(); g.sort();
        if g != w { println!("WITNESS message {:?} names {:?}, the parser expected {:?}; source: {:?}", msgs[0], got, want, src); ok = false; }
    }
    println!("ORACLE-STATS evaluations={} distinct={} rule=error points with a known expectation set of size 1 or 2", cases.len(), cases.len());
    assert!(ok, "witness found");
}
