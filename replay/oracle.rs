// Bounded oracle for the validation properties (C05 C06 C07 C08 C09 C10 C11 and parts of C01 C03 C12 C13):
// a reference validator written from the property statements, compared with the real library on an enumerated
// family of small projects.  Used (a) to attach a real failing input to a violation the verifier decided,
// (b) as the labelled *bounded* stand-in when a unit is UNDECIDED, (c) proactively in the thorough tier.
// Every finding is printed as   WITNESS property=<id> ...   (one line).
use aidl_parser::ast::*;
use aidl_parser::diagnostic::{Diagnostic, DiagnosticKind};
use aidl_parser::Parser;
use std::collections::{BTreeMap, BTreeSet};

type Rng = (usize, usize); // offsets (start, end)

fn r(x: &Range) -> Rng { (x.start.offset, x.end.offset) }

#[derive(Debug, Clone, PartialEq, Eq, PartialOrd, Ord)]
struct Exp { prop: &'static str, err: bool, range: Rng, related: Option<Rng>, what: String }

fn flat<'a>(t: &'a Type, out: &mut Vec<&'a Type>) {
    if t.kind == TypeKind::Array { for c in &t.generic_types { flat(c, out); } out.push(t); }
    else { out.push(t); for c in &t.generic_types { flat(c, out); } }
}

fn roots(ast: &Aidl) -> Vec<&Type> {
    let mut v = Vec::new();
    match &ast.item {
        Item::Interface(i) => for el in &i.elements { match el {
            InterfaceElement::Method(m) => { v.push(&m.return_type); for a in &m.args { v.push(&a.arg_type); } }
            InterfaceElement::Const(c) => v.push(&c.const_type) } },
        Item::Parcelable(p) => for el in &p.elements { match el {
            ParcelableElement::Field(f) => v.push(&f.field_type),
            ParcelableElement::Const(c) => v.push(&c.const_type) } },
        Item::Enum(_) => (),
    }
    v
}

fn qname(i: &Import) -> String { if i.path.is_empty() { i.name.clone() } else { format!("{}.{}", i.path, i.name) } }

const BUILTINS: [(&str, &str, AndroidTypeKind, bool); 4] = [
    ("IBinder", "android.os.IBinder", AndroidTypeKind::IBinder, false),
    ("FileDescriptor", "java.os.FileDescriptor", AndroidTypeKind::FileDescriptor, false),
    ("ParcelFileDescriptor", "android.os.ParcelFileDescriptor", AndroidTypeKind::ParcelFileDescriptor, true),
    ("ParcelableHolder", "android.os.ParcelableHolder", AndroidTypeKind::ParcelableHolder, false),
];

// C05: the kind a written custom name must end up with
fn oracle_resolve(name: &str, imports: &BTreeSet<String>, fwd: &BTreeSet<String>, defined: &BTreeMap<String, Vec<ResolvedItemKind>>) -> Vec<TypeKind> {
    // qualified built-in that may be written qualified (or is imported under exactly that name)
    for b in BUILTINS.iter() {
        if b.1 == name && (b.3 || imports.contains(name)) { return vec![TypeKind::AndroidType(b.2.clone())]; }
    }
    // imports: equal or ends with '.' + name. Several imports may serve one written name (same simple name in several
    // packages): the statement does not say which one wins, so each of them is allowed here (that the choice does not depend
    // on hash order is C11's business, checked by c11_determinism.rs)
    let suffix = format!(".{}", name);
    let matching: Vec<&String> = imports.iter().filter(|p| p.as_str() == name || p.ends_with(&suffix)).collect();
    if !matching.is_empty() {
        let mut allowed = Vec::new();
        for p in matching {
            let builtin = BUILTINS.iter().find(|b| b.1 == p.as_str());
            if let Some(b) = builtin { allowed.push(TypeKind::AndroidType(b.2.clone())); }
            match defined.get(p) {
                Some(kinds) => for k in kinds { allowed.push(TypeKind::ResolvedItem(p.clone(), k.clone())); },
                None => if builtin.is_none() { allowed.push(TypeKind::ResolvedItem(p.clone(), ResolvedItemKind::UnknownImport)); },
            }
        }
        return allowed;
    }
    if !name.contains('.') && fwd.contains(name) { return vec![TypeKind::ResolvedItem(name.to_owned(), ResolvedItemKind::ForwardDeclaredParcelable)]; }
    for b in BUILTINS.iter() { if b.0 == name { return vec![TypeKind::AndroidType(b.2.clone())]; } }
    vec![TypeKind::Unresolved]
}

#[derive(PartialEq)]
enum Req { Required, InOrNone, InOrInOut, Never, Nothing }
fn req_of(k: &TypeKind) -> Req {
    match k {
        TypeKind::Array | TypeKind::List | TypeKind::Map => Req::Required,
        TypeKind::ResolvedItem(_, ResolvedItemKind::Parcelable) | TypeKind::ResolvedItem(_, ResolvedItemKind::ForwardDeclaredParcelable) => Req::Required,
        TypeKind::Primitive | TypeKind::Void | TypeKind::String | TypeKind::CharSequence => Req::InOrNone,
        TypeKind::ResolvedItem(_, _) => Req::InOrNone,
        TypeKind::AndroidType(AndroidTypeKind::IBinder) | TypeKind::AndroidType(AndroidTypeKind::FileDescriptor) => Req::InOrNone,
        TypeKind::AndroidType(AndroidTypeKind::ParcelFileDescriptor) => Req::InOrInOut,
        TypeKind::AndroidType(AndroidTypeKind::ParcelableHolder) => Req::Never,
        TypeKind::Unresolved => Req::Nothing,
    }
}
fn array_ok(k: &TypeKind) -> bool {
    matches!(k, TypeKind::Primitive | TypeKind::String | TypeKind::Unresolved
        | TypeKind::ResolvedItem(_, ResolvedItemKind::Enum) | TypeKind::ResolvedItem(_, ResolvedItemKind::Parcelable)
        | TypeKind::ResolvedItem(_, ResolvedItemKind::ForwardDeclaredParcelable) | TypeKind::ResolvedItem(_, ResolvedItemKind::UnknownImport)
        | TypeKind::AndroidType(AndroidTypeKind::IBinder) | TypeKind::AndroidType(AndroidTypeKind::FileDescriptor) | TypeKind::AndroidType(AndroidTypeKind::ParcelFileDescriptor))
}
fn list_ok(k: &TypeKind) -> bool {
    matches!(k, TypeKind::String | TypeKind::Unresolved
        | TypeKind::ResolvedItem(_, ResolvedItemKind::Parcelable) | TypeKind::ResolvedItem(_, ResolvedItemKind::ForwardDeclaredParcelable)
        | TypeKind::ResolvedItem(_, ResolvedItemKind::UnknownImport)
        | TypeKind::AndroidType(AndroidTypeKind::IBinder) | TypeKind::AndroidType(AndroidTypeKind::ParcelFileDescriptor))
}
fn map_value_ok(k: &TypeKind) -> bool { !matches!(k, TypeKind::Primitive | TypeKind::Void | TypeKind::ResolvedItem(_, ResolvedItemKind::Enum)) }

fn expected_for(ast: &Aidl, defined: &BTreeMap<String, Vec<ResolvedItemKind>>, findings: &mut Vec<String>, src: &str) -> Vec<Exp> {
    let mut ex = Vec::new();
    let imports: BTreeSet<String> = ast.imports.iter().map(qname).collect();
    let fwd: BTreeSet<String> = ast.declared_parcelables.iter().map(qname).collect();
    let mut nodes = Vec::new();
    for t in roots(ast) { flat(t, &mut nodes); }
    // ---- C05: every node classified; unknown -> one Error on the name
    let mut resolved: BTreeSet<String> = BTreeSet::new();
    for t in &nodes {
        let custom = matches!(t.kind, TypeKind::Unresolved | TypeKind::ResolvedItem(..) | TypeKind::AndroidType(..));
        if custom {
            let allowed = oracle_resolve(&t.name, &imports, &fwd, defined);
            if !allowed.contains(&t.kind) {
                findings.push(format!("WITNESS property=C05 type `{}` resolved to {:?}, allowed {:?}; source: {:?}", t.name, t.kind, allowed, src));
            }
            if t.kind == TypeKind::Unresolved { ex.push(Exp { prop: "C05", err: true, range: r(&t.symbol_range), related: None, what: format!("unknown type {}", t.name) }); }
            // C17: the qualified name a resolved type symbol reports is the key it resolved to, and that key ends with the name as written
            if let TypeKind::ResolvedItem(key, _) = &t.kind {
                let q = aidl_parser::symbol::Symbol::Type(t).get_qualified_name();
                if q.as_deref() != Some(key.as_str()) || !(key == &t.name || key.ends_with(&format!(".{}", t.name))) {
                    findings.push(format!("WITNESS property=C17 type written `{}` reports qualified name {:?} (stored key {:?}); source: {:?}", t.name, q, key, src));
                }
            }
        }
        match &t.kind {
            TypeKind::ResolvedItem(k, _) => { resolved.insert(k.clone()); }
            TypeKind::AndroidType(a) => { resolved.insert(BUILTINS.iter().find(|b| &b.2 == a).unwrap().1.to_owned()); }
            _ => (),
        }
    }
    // ---- C06 imports
    let mut first: BTreeMap<String, &Import> = BTreeMap::new();
    for i in &ast.imports {
        let q = qname(i);
        if let Some(f) = first.get(&q) { ex.push(Exp { prop: "C06", err: true, range: r(&i.symbol_range), related: Some(r(&f.symbol_range)), what: format!("duplicated import {}", q) }); }
        else { first.insert(q, i); }
    }
    for (q, i) in &first {
        let resolvable = defined.contains_key(q) || BUILTINS.iter().any(|b| b.1 == q.as_str());
        if !resolvable { ex.push(Exp { prop: "C06", err: false, range: r(&i.symbol_range), related: None, what: format!("unresolved import {}", q) }); }
        else if !resolved.contains(q) { ex.push(Exp { prop: "C06", err: false, range: r(&i.symbol_range), related: None, what: format!("unused import {}", q) }); }
    }
    // ---- C06 forward declarations
    let mut first_d: BTreeMap<String, &Import> = BTreeMap::new();
    for d in &ast.declared_parcelables {
        let q = qname(d);
        let conflict = first.iter().filter(|(_, i)| i.name == d.name).map(|(k, i)| (k.clone(), *i)).min_by(|a, b| a.0.cmp(&b.0));
        if let Some((_, i)) = conflict { ex.push(Exp { prop: "C06", err: true, range: r(&d.symbol_range), related: Some(r(&i.symbol_range)), what: format!("conflicting declaration {}", q) }); continue; }
        if let Some(f) = first_d.get(&q) { ex.push(Exp { prop: "C06", err: true, range: r(&d.symbol_range), related: Some(r(&f.symbol_range)), what: format!("duplicated declaration {}", q) }); continue; }
        first_d.insert(q, d);
    }
    for (q, d) in &first_d {
        if !resolved.contains(q) { ex.push(Exp { prop: "C06", err: false, range: r(&d.symbol_range), related: None, what: format!("unused declared parcelable {}", q) }); }
        else { ex.push(Exp { prop: "C06", err: false, range: r(&d.full_range), related: None, what: format!("declared parcelable usage {}", q) }); }
    }
    // ---- C08 containers, every node
    for t in &nodes {
        match t.kind {
            TypeKind::Array => { let e = &t.generic_types[0]; if !array_ok(&e.kind) { ex.push(Exp { prop: "C08", err: true, range: r(&e.symbol_range), related: None, what: format!("array element {}", e.name) }); } }
            TypeKind::List => {
                if t.generic_types.is_empty() { ex.push(Exp { prop: "C08", err: false, range: r(&t.symbol_range), related: None, what: "raw list".into() }); }
                else { let e = &t.generic_types[0]; if !list_ok(&e.kind) { ex.push(Exp { prop: "C08", err: true, range: r(&e.symbol_range), related: None, what: format!("list element {}", e.name) }); } }
            }
            TypeKind::Map => {
                if t.generic_types.is_empty() { ex.push(Exp { prop: "C08", err: false, range: r(&t.symbol_range), related: None, what: "raw map".into() }); }
                else {
                    let k = &t.generic_types[0]; if k.kind != TypeKind::String { ex.push(Exp { prop: "C08", err: true, range: r(&k.symbol_range), related: None, what: format!("map key {}", k.name) }); }
                    let v = &t.generic_types[1]; if !map_value_ok(&v.kind) { ex.push(Exp { prop: "C08", err: true, range: r(&v.symbol_range), related: None, what: format!("map value {}", v.name) }); }
                }
            }
            _ => (),
        }
    }
    // ---- C10 propagation + C07 / C10 / C09 per method
    if let Item::Interface(i) = &ast.item {
        let mut names: BTreeMap<String, &Method> = BTreeMap::new();
        let mut ids: BTreeMap<u32, &Method> = BTreeMap::new();
        let (mut first_with, mut first_without): (Option<&Method>, Option<&Method>) = (None, None);
        for el in &i.elements {
            let m = match el { InterfaceElement::Method(m) => m, InterfaceElement::Const(_) => continue };
            let written_oneway = m.oneway_range.start.offset != m.oneway_range.end.offset;
            if m.oneway != (written_oneway || i.oneway) {
                findings.push(format!("WITNESS property=C10 method `{}` oneway={} but source says {} and interface oneway={}; source: {:?}", m.name, m.oneway, written_oneway, i.oneway, src));
            }
            if i.oneway && written_oneway { ex.push(Exp { prop: "C10", err: false, range: r(&m.oneway_range), related: Some(r(&i.symbol_range)), what: format!("redundant oneway {}", m.name) }); }
            let oneway = written_oneway || i.oneway;
            if oneway && m.return_type.kind != TypeKind::Void { ex.push(Exp { prop: "C10", err: true, range: r(&m.return_type.symbol_range), related: None, what: format!("oneway return {}", m.name) }); }
            for a in &m.args {
                let (dirr, d) = match &a.direction {
                    Direction::In(x) => (r(x), 1), Direction::Out(x) => (r(x), 2), Direction::InOut(x) => (r(x), 3),
                    Direction::Unspecified => ((a.arg_type.symbol_range.start.offset, a.arg_type.symbol_range.start.offset), 0),
                };
                let broken = match req_of(&a.arg_type.kind) {
                    Req::Required => d == 0, Req::InOrNone => !(d == 0 || d == 1), Req::InOrInOut => !(d == 1 || d == 3), Req::Never => true, Req::Nothing => false,
                };
                if broken { ex.push(Exp { prop: "C07", err: true, range: dirr, related: None, what: format!("direction rule {} {}", m.name, a.arg_type.name) }); }
                if oneway && (d == 2 || d == 3) { ex.push(Exp { prop: "C07", err: true, range: dirr, related: None, what: format!("oneway direction {} {}", m.name, a.arg_type.name) }); }
            }
            // C09
            if let Some(p) = names.get(&m.name) {
                ex.push(Exp { prop: "C09", err: true, range: r(&m.symbol_range), related: Some(r(&p.symbol_range)), what: format!("duplicated method name {}", m.name) });
                continue;
            }
            names.insert(m.name.clone(), m);
            // the code a method carries is the decimal value of the literal written after `=` (if it fits u32), read off the source
            let lit: String = src[m.transact_code_range.start.offset..m.transact_code_range.end.offset].chars().filter(|c| c.is_ascii_digit()).collect();
            let written: Option<u32> = if lit.is_empty() { None } else { lit.parse::<u64>().ok().and_then(|v| u32::try_from(v).ok()) };
            if !lit.is_empty() && written.is_none() {
                // a literal that does not fit u32: no code, one Error from the literal to the end of the `= literal` clause
                let tc = &src[m.transact_code_range.start.offset..m.transact_code_range.end.offset];
                let d0 = m.transact_code_range.start.offset + tc.find(|c: char| c.is_ascii_digit()).unwrap();
                ex.push(Exp { prop: "C09", err: true, range: (d0, m.transact_code_range.end.offset), related: None, what: format!("transact code literal {} does not fit", lit) });
            }
            if m.transact_code != written { findings.push(format!("WITNESS property=C09 method `{}`: transact code literal {:?} stored as {:?}, expected {:?}; source: {:?}", m.name, lit, m.transact_code, written, src)); }
            let with = m.transact_code.is_some();
            if with && first_with.is_none() { if let Some(o) = first_without { ex.push(Exp { prop: "C09", err: true, range: r(&m.transact_code_range), related: Some(r(&o.transact_code_range)), what: format!("mixed at {}", m.name) }); } }
            if !with && first_without.is_none() { if let Some(o) = first_with { ex.push(Exp { prop: "C09", err: true, range: r(&m.transact_code_range), related: Some(r(&o.transact_code_range)), what: format!("mixed at {}", m.name) }); } }
            if with { if first_with.is_none() { first_with = Some(m); } } else if first_without.is_none() { first_without = Some(m); }
            if let Some(c) = m.transact_code {
                if let Some(p) = ids.get(&c) { ex.push(Exp { prop: "C09", err: true, range: r(&m.transact_code_range), related: Some(r(&p.transact_code_range)), what: format!("duplicated id {} at {}", c, m.name) }); }
                else { ids.insert(c, m); }
            }
        }
    }
    ex
}

fn act(d: &Diagnostic) -> (bool, Rng, Option<Rng>) {
    (d.kind == DiagnosticKind::Error, r(&d.range), d.related_infos.get(0).map(|x| r(&x.range)))
}

fn check_project(files: &[(u32, String)], findings: &mut Vec<String>) {
    let run = |order: &[usize]| {
        let mut p = Parser::new();
        for &k in order { p.add_content(files[k].0, &files[k].1); }
        p.validate()
    };
    let order: Vec<usize> = (0..files.len()).collect();
    let res = run(&order);
    if res.len() != files.len() { findings.push(format!("WITNESS property=C01 {} results for {} ids", res.len(), files.len())); }
    let mut defined: BTreeMap<String, Vec<ResolvedItemKind>> = BTreeMap::new();
    for (_, fr) in res.iter() { if let Some(a) = &fr.ast { defined.entry(a.get_key()).or_default().push(a.item.get_kind()); } }
    for (id, src) in files {
        let fr = match res.get(id) { Some(x) => x, None => { findings.push(format!("WITNESS property=C01 no result for id {}", id)); continue; } };
        if fr.id != *id { findings.push(format!("WITNESS property=C01 result for id {} tagged {}", id, fr.id)); }
        let ast = match &fr.ast { Some(a) => a, None => {
            if !fr.diagnostics.iter().any(|d| d.kind == DiagnosticKind::Error) { findings.push(format!("WITNESS property=C03 no tree and no Error; source: {:?}", src)); }
            continue; } };
        let ex = expected_for(ast, &defined, findings, src);
        // multiset comparison, attributing each difference to the property of the expectation / the nearest rule
        let mut want: Vec<(bool, Rng, Option<Rng>, &'static str, String)> = ex.iter().map(|e| (e.err, e.range, e.related, e.prop, e.what.clone())).collect();
        let mut extra = Vec::new();
        for d in &fr.diagnostics {
            let a = act(d);
            if let Some(pos) = want.iter().position(|w| w.0 == a.0 && w.1 == a.1 && (w.2.is_none() || w.2 == a.2)) { want.remove(pos); } else { extra.push(d); }
        }
        for w in &want { findings.push(format!("WITNESS property={} missing {} `{}` at {:?} related {:?}; source: {:?}", w.3, if w.0 { "Error" } else { "Warning" }, w.4, w.1, w.2, src)); }
        for d in &extra {
            let m = &d.message;
            let prop = if m.contains("import") || m.contains("parcelable") || m.contains("Declared") { "C06" } else if m.contains("direction") || m.contains("argument") { "C07" }
                else if m.contains("array") || m.contains("list") || m.contains("map") { "C08" } else if m.contains("method name") || m.contains("method id") { "C09" }
                else if m.contains("async") || m.contains("oneway") { "C10" } else if m.contains("Unknown type") { "C05" } else { "C03" };
            findings.push(format!("WITNESS property={} unexpected {:?} `{}` at {:?} related {:?}; source: {:?}", prop, d.kind, m, r(&d.range), d.related_infos.get(0).map(|x| r(&x.range)), src));
        }
        // C11: ascending start positions
        let starts: Vec<(usize, usize)> = fr.diagnostics.iter().map(|d| d.range.start.line_col).collect();
        let mut s2 = starts.clone(); s2.sort();
        if starts != s2 { findings.push(format!("WITNESS property=C11 diagnostics not ascending by start: {:?}; source: {:?}", starts, src)); }
    }
    // C11 / C12: other insertion orders, fresh parsers
    let base: Vec<(u32, String)> = { let mut v: Vec<_> = res.iter().map(|(k, fr)| (*k, format!("{:?}|{:?}", fr.ast, fr.diagnostics))).collect(); v.sort(); v };
    for rep in 0..3 {
        let mut o = order.clone(); o.rotate_left(rep % order.len().max(1)); if rep % 2 == 1 { o.reverse(); }
        let again = run(&o);
        let b: Vec<(u32, String)> = { let mut v: Vec<_> = again.iter().map(|(k, fr)| (*k, format!("{:?}|{:?}", fr.ast, fr.diagnostics))).collect(); v.sort(); v };
        if b != base { findings.push(format!("WITNESS property=C11 run with insertion order {:?} differs from the first run; project: {:?}", o, files.iter().map(|f| &f.1).collect::<Vec<_>>())); break; }
    }
}

fn lib_files() -> Vec<(u32, String)> {
    vec![
        (10, "package a; parcelable Foo { int x; }".into()),
        (11, "package b; interface Foo { void f(); }".into()),
        (12, "package a; enum Bar { X, Y }".into()),
        (13, "package a.b; parcelable XFoo { int x; }".into()),
    ]
}

#[test]
fn oracle_all() {
    std::panic::set_hook(Box::new(|_| {}));
    let mut findings = Vec::new();
    let mut n = 0usize;
    let full = std::env::var("ORACLE_FULL").map(|v| v == "1").unwrap_or(false);
    let mut projects: Vec<Vec<(u32, String)>> = Vec::new();
    // ---- family 1 (C05/C06): naming relations
    let import_sets: [&[&str]; 10] = [&[], &["a.Foo"], &["b.Foo"], &["a.Foo", "b.Foo"], &["a.b.XFoo"], &["c.Missing"], &["android.os.IBinder"], &["a.Foo", "a.Foo", "a.Bar"], &["a.Bar", "c.Missing", "b.Foo"], &["x.IBinder", "y.ParcelFileDescriptor"]];
    let fwds: [&[&str]; 4] = [&[], &["Foo"], &["x.Q", "Q"], &["Baz", "Baz"]];
    let names = ["Foo", "a.Foo", "b.Foo", "XFoo", "Bar", "Q", "Baz", "IBinder", "android.os.IBinder", "ParcelFileDescriptor", "android.os.ParcelFileDescriptor", "Missing", "Nope"];
    for (ii, imps) in import_sets.iter().enumerate() { for (fi, fw) in fwds.iter().enumerate() { for (ni, name) in names.iter().enumerate() {
        if !full && (ii + fi + ni) % 2 == 1 { continue; }
        let mut s = String::from("package p;\n");
        for i in imps.iter() { s += &format!("import {};\n", i); }
        for f in fw.iter() { s += &format!("parcelable {};\n", f); }
        s += &format!("interface I {{\n  {n} f(in {n} a, in List<{n}> b);\n  void g(in Map<String, List<{n}[]>> c);\n}}\n", n = name);
        let mut files = lib_files(); files.push((0, s)); projects.push(files);
    } } }
    // ---- family 2 (C07/C10): categories x directions x oneway
    let types = ["int", "void", "String", "CharSequence", "int[]", "List<String>", "Map<String,String>", "a.Foo", "b.Foo", "a.Bar", "Q", "c.Missing", "IBinder", "FileDescriptor", "ParcelFileDescriptor", "ParcelableHolder", "Nope"];
    for io in [false, true].iter() { for mo in [false, true].iter() { for t in types.iter() {
        let mut s = String::from("package p;\nimport a.Foo; import b.Foo; import a.Bar; import c.Missing;\nparcelable Q;\n");
        s += &format!("{}interface I {{\n", if *io { "oneway " } else { "" });
        s += &format!("  {}{} f({t} a, in {t} b, out {t} c, inout {t} d);\n", if *mo { "oneway " } else { "" }, if *t == "int[]" { "void" } else { t }, t = t);
        s += "  void g();\n}\n";
        let mut files = lib_files(); files.push((0, s)); projects.push(files);
    } } }
    // ---- family 2b (C10): return types that are containers, also of void (round 15, seed C10d: `oneway void[] f()`)
    for io in [false, true].iter() { for mo in [false, true].iter() { for r in ["void[]", "int[]", "String[]", "void[][]", "List<String>", "Map<String,String>", "a.Foo[]"].iter() {
        let mut s = String::from("package p;\nimport a.Foo;\n");
        s += &format!("{}interface I {{\n  const int K = 1;\n", if *io { "oneway " } else { "" });
        s += &format!("  {}{} h();\n  {}{} k(in int a);\n", if *mo { "oneway " } else { "" }, r, if *mo { "oneway " } else { "" }, r);
        s += "  void g();\n}\n";
        let mut files = lib_files(); files.push((0, s)); projects.push(files);
    } } }
    // ---- family 3 (C08): container shapes
    let leaves = ["int", "String", "CharSequence", "a.Foo", "b.Foo", "a.Bar", "Q", "IBinder", "FileDescriptor", "ParcelFileDescriptor", "ParcelableHolder", "Nope", "List", "Map", "int[]", "List<String>"];
    for l in leaves.iter() {
        let mut s = String::from("package p;\nimport a.Foo; import b.Foo; import a.Bar;\nparcelable Q;\nparcelable P {\n");
        s += &format!("  {l}[] a; List<{l}> b; Map<String, {l}> c; Map<{l}, String> d;\n  List<List<{l}[]>> e; Map<String, Map<String, {l}[]>> f; {l}[][][] g; const int K = 1;\n  Map<{l}, {l}> h; Map<int, {l}> i; Map<List<String>, Map<{l}, {l}[]>> j;\n}}\n", l = l);
        let mut files = lib_files(); files.push((0, s)); projects.push(files);
    }
    // ---- family 4 (C09): method sequences up to 4 over 3 names x {no code, 3 codes}, constants interleaved
    let alphabet: Vec<(char, Option<u32>)> = { let mut v = Vec::new(); for nm in ['a', 'b', 'c'] { for c in [None, Some(1u32), Some(2), Some(3)] { v.push((nm, c)); } } v };
    for len in 0..=(if full { 4usize } else { 3usize }) {
        let total = alphabet.len().pow(len as u32);
        for code in 0..total {
            if len == 4 && code % 7 != 0 { continue; } // thin out the largest level
            if len == 3 && !full && code % 5 != 0 { continue; }
            let mut s = String::from("package p;\ninterface I {\n");
            let mut c = code;
            for k in 0..len {
                let (nm, tc) = alphabet[c % alphabet.len()]; c /= alphabet.len();
                if k == 1 { s += "  const int K = 1;\n"; }
                s += &format!("  void {}(){};\n", nm, tc.map(|x| format!(" = {}", x)).unwrap_or_default());
            }
            s += "}\n";
            projects.push(vec![(0, s)]);
        }
    }
    // ---- family 4b (C09): how a code is written: zero padding, the largest code, one past it
    let lits = ["0", "00", "7", "007", "8", "010", "10", "009", "9", "012", "4294967295", "4294967296", "0004294967295"];
    for a in lits.iter() { for b in lits.iter() {
        projects.push(vec![(0, format!("package p;\ninterface I {{\n  void m1() = {};\n  const int K = 1;\n  void m2() = {};\n  void m3() = 5;\n}}\n", a, b))]);
    } }
    // ---- family 6 (C07/C09/C10 together): repeated method names whose later occurrences break direction / return rules
    let shapes = ["void {n}();", "void {n}(out int v, int[] w);", "oneway int {n}();", "oneway void {n}(inout ParcelFileDescriptor p) = 1;", "long {n}(in String s) = 1;"];
    for io in [false, true].iter() { for a in 0..shapes.len() { for b in 0..shapes.len() { for c in 0..shapes.len() {
        if !full && (a + b + c) % 2 == 1 { continue; }
        let mut s = format!("package p;\n{}interface I {{\n", if *io { "oneway " } else { "" });
        s += &format!("  {}\n  const int K = 1;\n  {}\n  {}\n}}\n", shapes[a].replace("{n}", "m"), shapes[b].replace("{n}", if (a + b) % 2 == 0 { "m" } else { "n" }), shapes[c].replace("{n}", "m"));
        projects.push(vec![(0, s)]);
    } } } }
    // ---- family 5 (C11 / hash order): many imports and declarations on few lines
    {
        let mut s = String::from("package p; ");
        for k in 0..24 { s += &format!("import z.M{}; ", k); }
        for k in 0..12 { s += &format!("parcelable D{}; ", k); }
        s += "\ninterface I { ";
        for k in 0..12 { s += &format!("oneway void m{}(out int v, in D{} d); ", k, k % 6); }
        s += "}\n";
        projects.push(vec![(0, s)]);
    }
    // ---- family 7 (C13): rewriting the body of an imported item (same package, name, kind) must not change the importer's result
    {
        let user = "package p; import q.S; import q.D; interface U { void f(in S s, in S[] a, D d, in List<D> l); }";
        let bodies_s = ["package q; interface S { void a(); }", "package q; interface S { void a() = 4294967296; }", "package q; interface S { void a(); oops oops; void b(in int[] x); }", "package q; /** doc */ interface S { const int K = 3; }"];
        let bodies_d = ["package q; parcelable D { int x; }", "package q; parcelable D { int x; junk junk junk; String s; }", "package q; parcelable D { }"];
        let snap = |fs: &[(u32, String)]| {
            match std::panic::catch_unwind(std::panic::AssertUnwindSafe(|| { let mut p = Parser::new(); for (i, s) in fs { p.add_content(*i, s); } let r = p.validate(); format!("{:?}|{:?}", r[&0].ast, r[&0].diagnostics) })) {
                Ok(s) => s,
                Err(_) => { println!("WITNESS property=C01 PANIC while validating the project {:?}", fs.iter().map(|f| &f.1).collect::<Vec<_>>()); "PANIC".to_owned() }
            }
        };
        let base = snap(&[(0, user.to_owned()), (1, bodies_s[0].to_owned()), (2, bodies_d[0].to_owned())]);
        for bs in bodies_s.iter() { for bd in bodies_d.iter() {
            n += 1;
            let got = snap(&[(0, user.to_owned()), (1, bs.to_string()), (2, bd.to_string()), (3, "package z; enum Unrelated { A }".to_owned())]);
            if got != base { findings.push(format!("WITNESS property=C13 the importer's result changed although only the bodies of the imported items were rewritten (same package, name, kind): S = {:?}, D = {:?}", bs, bd)); }
        } }
        // unrelated files: files whose keys the user does not import may come and go, in any number, without changing its result;
        // the user also imports a name nobody registers (`q.Gone`) and uses a forward declaration
        let user2 = "package p; import q.S; import q.Gone; import q.D; parcelable Fwd; interface U { void f(in S s, in Gone g, D d, in Fwd w, in List<Gone> l); }";
        let base2 = snap(&[(0, user2.to_owned()), (1, bodies_s[0].to_owned()), (2, bodies_d[0].to_owned())]);
        let unrelated = ["package z; enum Unrelated { A }", "package p; interface Other { void g(); }", "package q; parcelable Different { int x; }", "package y; interface S { }", "package q.r; parcelable D { }", "package a; enum Gone { G }", "not even a file"];
        for k in 0..=unrelated.len() {
            n += 1;
            let mut fs = vec![(0u32, user2.to_owned()), (1, bodies_s[0].to_owned()), (2, bodies_d[0].to_owned())];
            for (j, u) in unrelated.iter().take(k).enumerate() { fs.push((10 + j as u32, u.to_string())); }
            let got = snap(&fs);
            if got != base2 { findings.push(format!("WITNESS property=C13 the importer's result changed when {} file(s) it does not import were added: {:?}", k, &unrelated[..k])); }
        }
        let user3 = "package p; import q.Gone; interface U { void f(in Gone g, in List<Gone> l, in Gone[] a); }";
        let base3 = snap(&[(0, user3.to_owned())]);
        for k in 1..=unrelated.len() {
            n += 1;
            let mut fs = vec![(0u32, user3.to_owned())];
            for (j, u) in unrelated.iter().take(k).enumerate() { fs.push((10 + j as u32, u.to_string())); }
            let got = snap(&fs);
            if got != base3 { findings.push(format!("WITNESS property=C13 the result of a file importing only an unregistered name changed when {} unrelated file(s) were added: {:?}", k, &unrelated[..k])); }
        }
        // negative control of the statement: changing the kind must change the result
        let changed = snap(&[(0, user.to_owned()), (1, "package q; parcelable S { int x; }".to_owned()), (2, bodies_d[0].to_owned())]);
        if changed == base { findings.push("WITNESS property=C13 changing the kind of an imported item did not change the importer's result".to_owned()); }
    }
    n += projects.len();
    let chunks: Vec<&[Vec<(u32, String)>]> = projects.chunks((projects.len() + 13) / 14).collect();
    let results: Vec<Vec<String>> = std::thread::scope(|sc| {
        let hs: Vec<_> = chunks.iter().map(|ch| sc.spawn(move || {
            let mut f = Vec::new();
            for files in ch.iter() {
                let r = std::panic::catch_unwind(std::panic::AssertUnwindSafe(|| { let mut g = Vec::new(); check_project(files, &mut g); g }));
                match r {
                    Ok(g) => f.extend(g),
                    Err(e) => f.push(format!("WITNESS property=C01 PANIC `{}`; project: {:?}", e.downcast_ref::<String>().cloned().or_else(|| e.downcast_ref::<&str>().map(|x| x.to_string())).unwrap_or_default(), files.iter().map(|x| &x.1).collect::<Vec<_>>())),
                }
                if f.len() > 60 { break; }
            }
            f
        })).collect();
        hs.into_iter().map(|h| h.join().unwrap()).collect()
    });
    for f in results { findings.extend(f); }
    findings.sort(); findings.dedup();
    let mut per: BTreeMap<String, usize> = BTreeMap::new();
    for f in findings.iter() {
        let key: String = f.split_whitespace().nth(1).unwrap_or("").to_owned();
        let c = per.entry(key).or_insert(0);
        *c += 1;
        if *c <= 6 { println!("{}", f.chars().take(900).collect::<String>()); }
    }
    println!("ORACLE projects={} findings={} full={}", n, findings.len(), full);
    assert!(findings.is_empty(), "witness found");
}
